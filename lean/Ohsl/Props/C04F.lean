/-
  Property C04 (part F) — backward error analysis of the banded solver in the "rounded reals"
  interpretation `Fl M` of the model (Ohsl/Lemmas/Rounding.lean): the SAME model definitions
  `Band.mulVec`, `Band.decompose` (`bandec`: compact-storage LU with row exchanges inside the band),
  `Band.solve` (`banbks`) instantiated at real numbers whose `+ - * /` round with relative error
  `≤ u` (standard model of floating-point arithmetic, no overflow / underflow).  Clause "and with
  backward error of the order of machine epsilon over floats" of C04.
  Helper file: Ohsl/Lemmas/BandRounding.lean; the constants `gq`, the factor calculus `Th` and the
  recurrence lemma `Mat.sdot_backward` come from Ohsl/Lemmas/LURounding.lean (C01F).

  The transfer to the Rust `f64` code rests on the ASSUMPTION stated in Rounding.lean (IEEE binary64
  without overflow/underflow satisfies `FlModel` with `u = 2⁻⁵³`); it is not proved here.

  Notation.  `b : Band (Fl M)` well formed (`WFb b`), `n = b.n`, `m1 = b.m1`, `m2 = b.m2`,
  `mm = m1 + m2 + 1` (the width of the compact storage), `B = dense b` the dense twin.  For a state
  `s` returned by `decompose b`:
    `permF n s`  the row permutation `π` recorded in `s.index` (position `r` of the factorisation is
                 row `π r` of `B`; `permInvF n s` is its inverse, `PermOK n π σ`),
    `LhatF n m1 s`  the unit lower factor `L̂` of `P·B = L̂·Û` (real values): its strictly lower part
                 consists of the multipliers stored in `s.al`, entry `(r, t)` being the multiplier
                 that step `t` applied to the row which ends at position `r` (`bandec` does not
                 permute the stored multipliers; `Band.Lt` replays `s.index` to find them; without
                 exchanges `l̂_rt = al[t][r-t-1]`, `Lhat_noexchange`).  (Remark, not needed and not
                 proved: each COLUMN of `L̂` has at most `m1` non-zeros below the diagonal; with
                 exchanges a ROW may have many.)
    `UhatS mm s`  the upper factor `Û`: compact row `i` of `s.au` placed at its diagonal,
                 bandwidth `m1 + m2` (`Uhat_band`),
    `absLUF n m1 mm s = |L̂||Û|`,
    `stayF n m1 s r`  the number of elimination steps the row that ends at position `r` went through
                 (`stay_le`: `≤ r` and `≤ r + m1 − π r`; hence `≤ m1` without exchanges).
  `M.gq k = (1−u)^{−k} − 1` (`gam k ≤ gq k ≤ γ_k = k u/(1 − k u)`, see the header of C01F for why `gam`
  is not a valid constant of a backward error with unperturbed right-hand side).

  1. `mulVec_rounding`   component `i` of `Band.mulVec b v` is within `gam (w_i + 1) · Σ_j |b_ij v_j|` of
                         the exact dense product, `w_i = rowLen b i ≤ m1 + m2 + 1` the number of in-band
                         entries of row `i` (one rounding per product, `w_i` rounded additions starting
                         from `0`); `mulVec_rounding_band`: uniformly `gam (m1 + m2 + 2)`.
  2. `decompose_backward`  `decompose b = .ok s` ⇒ `π` is a permutation, `L̂` is unit lower triangular,
                         `Û` is upper triangular with bandwidth `m1 + m2`, and
                           `|L̂Û − P·B| ≤ gq (m1 + m2 + 1) · |L̂||Û|`   componentwise
                         — WITH the row exchanges, and with a constant that does not depend on `n`:
                         an entry of column `c` enters the compact storage as a literal zero at step
                         `c − (m1+m2)`, so it receives at most `m1 + m2` rounded updates, however far the
                         exchanges move its row.
     `multiplier_bound`  `|l̂_rt| ≤ 1 + u` (magnitude pivot rule; NOT `≤ 1`: the multiplier is a ROUNDED
                         quotient of magnitudes `≤ 1`, cf. C01F).
  3. `solve_backward`    `solve b rhs = .ok x̂` ⇒ `(B + ΔB) x̂ = rhs` EXACTLY and, row by row,
                           `|ΔB_{π r, c}| ≤ (gq (m1+m2+1) + gq (stayF r + m1+m2+1)) · (|L̂||Û|)_{rc}`.
                         (`gq mm`: factorisation; `stayF r` factors from the forward substitution
                         — component `r` of the right-hand side is updated once per elimination step of
                         its row —, `mm` from the back substitution of a row of `Û` and its division.)
     `solve_backward_n`  the same with the uniform constant `gq (m1+m2+1) + gq (n − 1 + m1+m2+1)`.
     `solve_backward_band_partial`  the BANDED form: if no row is moved down by more than `d` positions
                         (`r ≤ π r + d`), then `|ΔB| ≤ (gq (m1+m2+1) + gq (2 m1 + m2 + 1 + d)) · Pᵀ|L̂||Û|`,
                         a constant in `m1, m2, d` only.
       PARTIAL with respect to the ideal statement "`c` depends on the bandwidths only": that
       statement is NOT available with row exchanges — a row that the exchanges push down by `p`
       positions stays in the elimination window for `p` more steps, its right-hand side component is
       updated (with two roundings) in each of them, and these `p` factors land on one coefficient of
       the perturbed equation (informal remark: these roundings are genuine in IEEE arithmetic as
       well, the multipliers of such a row being non-zero fill-in).  `d = 0` is the case without
       exchanges:
     `solve_backward_noexchange`  if `s.index[k] = k + 1` for all `k` (no exchange took place), then
                         `π = id` and `|ΔB| ≤ (gq (m1+m2+1) + gq (2 m1 + m2 + 1)) · |L̂||Û|`.
     `solve_backward_upper`  for `m1 = 0` (upper-banded storage) no exchange can happen: the constant
                         `gq (m2+1) + gq (m2+1)` holds unconditionally, independently of `n`.
     `solve_residual`    `|rhs − B x̂|_{π r} ≤ (gq (m1+m2+1) + gq (n − 1 + m1+m2+1)) · (|L̂||Û||x̂|)_r`.
     `solve_backward_gamma`  the classical constants `γ_k = k u / (1 − k u)` for `solve_backward_n`.
  No sufficient condition for "no exchange" (e.g. diagonal dominance) is proved: dominance of the
  ROUNDED intermediate matrices does not follow from dominance of the input in the standard model.

  Examples (section `Examples`): exact arithmetic (`u = 0`): `ΔB = 0`, `B x = rhs` is recovered
  (`solve_sound` of C04B for `Fl exact`) and the product is the exact dense product; the tridiagonal
  `3 × 3` system of C04B, whose pivot steps 0 and 1 both exchange rows, evaluated in the exact model
  (`Ex.decompose_exBandE`, `Ex.solve_exBandE`), for which the hypotheses of `solve_backward` hold with
  `π = (0 1 2 ↦ 1 2 0)`; a `1 × 1` system in the model `fl x = (1+u) x`, where `x̂ = 3(1+u)`
  (`Ex.solve_scale`), so `ΔB ≠ 0`.
-/
import Ohsl.Props.C04B
import Ohsl.Props.C01F
import Ohsl.Lemmas.BandRounding
import Mathlib.Algebra.BigOperators.Intervals
import Mathlib.Algebra.Order.BigOperators.Group.Finset
import Mathlib.Algebra.BigOperators.Ring.Finset
import Mathlib.Tactic.Ring
import Mathlib.Tactic.Linarith
import Mathlib.Tactic.Positivity
import Mathlib.Tactic.NormNum
set_option linter.unusedSectionVars false
set_option linter.unusedVariables false
namespace Ohsl.Props.C04
open Ohsl Ohsl.Band Ohsl.Mat

/-! ### structural: the band-limited row loop as a fold over the list of products (any `K`) -/

section Structural
variable {K : Type} [Add K] [Mul K] [Zero K]

/-- (S) the ordered row sum of `mulVec_ordered` is the left fold from `0` of the list of products -/
theorem rowFold_eq_foldl_map (b : Band K) (v : Array K) (i len : Nat) :
    rowFold b v i 0 len
      = ((List.range' (i - b.m1) len).map (fun j => dense b i j * v[j]?.getD 0)).foldl (· + ·) 0 := by
  unfold rowFold
  rw [List.foldl_map]

/-- the number of in-band, in-matrix entries of a row is at most the width of the compact storage -/
theorem rowLen_le (b : Band K) (i : Nat) : rowLen b i ≤ b.m1 + b.m2 + 1 := by
  unfold rowLen; omega

end Structural

section Rounding
variable {M : FlModel}

/-! ### 1. the banded matrix–vector product -/

/-- **Rounding error of `&B * &v`**: for a well-formed banded matrix and a vector of length `n` the
product succeeds and component `i` differs from the exact dense product `Σ_j b_ij v_j` by at most
`gam (w_i + 1) · Σ_j |b_ij v_j|`, `w_i = rowLen b i` the number of in-band, in-matrix entries of row `i`
(one rounding per product, `w_i` rounded additions: the accumulation starts with `0 + p`, which the
abstract model rounds, see `Fl.foldl_sum_rounding_sharp`). -/
theorem mulVec_rounding {b : Band (Fl M)} (h : WFb b) (v : Array (Fl M)) (hv : v.size = b.n) :
    ∃ w, Band.mulVec b v = .ok w ∧ w.size = b.n ∧ ∀ i, i < b.n →
      |(w[i]?.getD 0).val - ∑ j ∈ Finset.range b.n, (dense b i j).val * (v[j]?.getD 0).val|
        ≤ M.gam (rowLen b i + 1)
          * ∑ j ∈ Finset.range b.n, |(dense b i j).val * (v[j]?.getD 0).val| := by
  obtain ⟨w, hw, hwn, hwe⟩ := Band.mulVec_ordered h v hv
  refine ⟨w, hw, hwn, ?_⟩
  intro i hi
  rw [hwe i hi, Option.getD_some, rowFold_eq_foldl_map]
  have hsum : ∀ g : Nat → ℝ, (∀ j, ¬ (inBand b i j ∧ i < b.n ∧ j < b.n) → g j = 0) →
      ((List.range' (i - b.m1) (rowLen b i)).map g).sum = ∑ j ∈ Finset.range b.n, g j := by
    intro g hg
    rw [sum_map_range']
    apply Finset.sum_subset
    · intro j hj
      rw [Finset.mem_Ico] at hj
      rw [Finset.mem_range]
      unfold rowLen at hj; omega
    · intro j hj hnj
      rw [Finset.mem_range] at hj
      rw [Finset.mem_Ico] at hnj
      apply hg
      unfold inBand rowLen at *; omega
  have hd0 : ∀ j, ¬ (inBand b i j ∧ i < b.n ∧ j < b.n) → (dense b i j).val = 0 := by
    intro j hj
    rw [dense_out hj]; rfl
  have h1 := Fl.foldl_sum_rounding
    ((List.range' (i - b.m1) (rowLen b i)).map (fun j => dense b i j * v[j]?.getD 0))
  rw [List.length_map, List.length_range'] at h1
  have h2 := Fl.rounded_terms_sum_bound (List.range' (i - b.m1) (rowLen b i))
    (fun j => dense b i j * v[j]?.getD 0) (fun j => (dense b i j).val * (v[j]?.getD 0).val)
    (rowLen b i) _ (fun j _ => Fl.mul_err _ _) h1
  rw [hsum _ (fun j hj => by rw [hd0 j hj, zero_mul]),
    hsum _ (fun j hj => by rw [hd0 j hj, zero_mul, abs_zero])] at h2
  exact h2

/-- the uniform banded constant: `gam (m1 + m2 + 2)`, independent of `n` -/
theorem mulVec_rounding_band {b : Band (Fl M)} (h : WFb b) (v : Array (Fl M)) (hv : v.size = b.n) :
    ∃ w, Band.mulVec b v = .ok w ∧ w.size = b.n ∧ ∀ i, i < b.n →
      |(w[i]?.getD 0).val - ∑ j ∈ Finset.range b.n, (dense b i j).val * (v[j]?.getD 0).val|
        ≤ M.gam (b.m1 + b.m2 + 2)
          * ∑ j ∈ Finset.range b.n, |(dense b i j).val * (v[j]?.getD 0).val| := by
  obtain ⟨w, hw, hwn, hwe⟩ := mulVec_rounding h v hv
  refine ⟨w, hw, hwn, fun i hi => (hwe i hi).trans ?_⟩
  exact mul_le_mul_of_nonneg_right (M.gam_mono (by have := rowLen_le b i; omega))
    (Finset.sum_nonneg (fun _ _ => abs_nonneg _))

/-! ### 2. the factorisation -/

/-- `Û` is upper triangular with bandwidth `mm - 1 = m1 + m2` -/
theorem Uhat_band (mm : Nat) (s : Dec (Fl M)) {t c : Nat} (h : c < t ∨ t + mm ≤ c) :
    UhatS mm s t c = 0 := by
  unfold UhatS UhatF
  rw [if_neg (by omega)]

theorem Lhat_diag (n m1 : Nat) (s : Dec (Fl M)) (r : Nat) : LhatF n m1 s r r = 1 := by
  unfold LhatF; rw [if_pos rfl]

/-- without row exchanges `L̂` is the banded matrix of the stored multipliers:
`l̂_rt = al[t][r - t - 1]` for `t < r ≤ t + m1`, zero elsewhere below the diagonal -/
theorem Lhat_noexchange (n m1 : Nat) (s : Dec (Fl M))
    (hne : ∀ k, k < n → idxf s.index k = k + 1) {r t : Nat} (hrt : t ≠ r) :
    LhatF n m1 s r t =
      if t < r ∧ r < min (m1 + t + 1) n then (Mat.entryOf s.al t (r - t - 1)).val else 0 := by
  have key : ∀ k, k ≤ n → ∀ r t,
      Lt n m1 (fun a b => (Mat.entryOf s.al a b).val) (idxf s.index) k r t =
        if t < k ∧ t < r ∧ r < min (m1 + t + 1) n then (Mat.entryOf s.al t (r - t - 1)).val
        else 0 := by
    intro k
    induction k with
    | zero => intro _ r t; simp [Lt]
    | succ k ih =>
      intro hk r t
      simp only [Lt]
      have e : swapIdx k (idxf s.index k - 1) r = r := by
        rw [hne k (by omega), Nat.add_sub_cancel]; unfold swapIdx; split_ifs <;> omega
      rw [e, ih (by omega)]
      by_cases htk : t = k
      · subst htk
        rw [if_pos rfl]
        by_cases hc : t < r ∧ r < min (m1 + t + 1) n
        · rw [if_pos hc, if_pos ⟨by omega, hc.1, hc.2⟩]
        · rw [if_neg hc, if_neg (by omega)]
      · rw [if_neg htk]
        by_cases hc : t < k ∧ t < r ∧ r < min (m1 + t + 1) n
        · rw [if_pos hc, if_pos ⟨by omega, hc.2.1, hc.2.2⟩]
        · rw [if_neg hc, if_neg (by omega)]
  unfold LhatF
  rw [if_neg hrt, key n (Nat.le_refl _)]
  by_cases hc : t < r ∧ r < min (m1 + t + 1) n
  · rw [if_pos hc, if_pos ⟨by omega, hc.1, hc.2⟩]
  · rw [if_neg hc, if_neg (by omega)]

/-- **Banded LU with row exchanges inside the band, backward error** (Higham, Thm 9.3, for the
compact-storage elimination `bandec` of the model: multipliers `l̂ = fl(a_i0 / a_k0)`, shifted updates
`a_{i,j-1} ← fl(a_ij − fl(l̂ a_kj))`, magnitude pivoting inside the window of `m1 + 1` rows, zero pivots
skipped).  Whenever `decompose b` returns the state `s` (it never fails in `Fl M` when `m1 ≤ n`):
the exchange record describes a permutation `π`, `L̂` is unit lower triangular, `Û` is upper
triangular with bandwidth `m1 + m2`, and
`|(L̂Û)_{rc} − b_{π r, c}| ≤ gq (m1 + m2 + 1) · (|L̂||Û|)_{rc}` for all `r, c < n`
— a constant that depends on the bandwidths only. -/
theorem decompose_backward (hu : M.u < 1) {b : Band (Fl M)} (h : WFb b) {s : Dec (Fl M)}
    (hd : Band.decompose b = .ok s) :
    PermOK b.n (permF b.n s) (permInvF b.n s) ∧
    (∀ r t, r < t → LhatF b.n b.m1 s r t = 0) ∧
    (∀ r c, r < b.n → c < b.n →
      |∑ t ∈ Finset.range b.n, LhatF b.n b.m1 s r t * UhatS (b.m1 + b.m2 + 1) s t c
          - (dense b (permF b.n s r) c).val|
        ≤ M.gq (b.m1 + b.m2 + 1) * absLUF b.n b.m1 (b.m1 + b.m2 + 1) s r c) := by
  by_cases hm : b.m1 ≤ b.n
  swap
  · rw [Band.decompose_rejects h (by omega)] at hd; cases hd
  obtain ⟨s', l, hdec, hinv⟩ := decompose_invF hu h hm
  rw [hd] at hdec
  injection hdec with hdec
  subst hdec
  have hidx := hinv.2.2.2.2.1
  simp only at hidx
  refine ⟨?_, ?_, hinv.backward hu (by omega)⟩
  · exact permOK_pik b.n (Nat.le_refl _) (fun k' hk' => by have := hidx k' hk'; omega)
  · intro r t hrt
    unfold LhatF
    rw [if_neg (by omega)]
    exact Lt_zero_of_row b.n (fun k' hk' => by have := hidx k' hk'; omega) r t (by omega)

/-- **the multipliers are bounded by `1 + u`** (magnitude pivoting: every multiplier is the rounded
quotient of an entry by a pivot of at least its magnitude; the standard model allows rounding a
quotient `≤ 1` upwards past `1`, `Mat.Fl.abs_div_le`) -/
theorem multiplier_bound (hu : M.u < 1) {b : Band (Fl M)} (h : WFb b) {s : Dec (Fl M)}
    (hd : Band.decompose b = .ok s) :
    ∀ r t, t ≠ r → |LhatF b.n b.m1 s r t| ≤ 1 + M.u := by
  by_cases hm : b.m1 ≤ b.n
  swap
  · rw [Band.decompose_rejects h (by omega)] at hd; cases hd
  obtain ⟨s', l, hdec, hinv⟩ := decompose_invF hu h hm
  rw [hd] at hdec
  injection hdec with hdec
  subst hdec
  intro r t hrt
  unfold LhatF
  rw [if_neg hrt]
  exact hinv.2.2.2.2.2.2 r t

/-! ### 3. the solver -/

/-- the number of elimination steps of a row: at most its final position, and at most `m1` plus its
displacement -/
theorem stay_le (hu : M.u < 1) {b : Band (Fl M)} (h : WFb b) {s : Dec (Fl M)}
    (hd : Band.decompose b = .ok s) (r : Nat) (hr : r < b.n) :
    stayF b.n b.m1 s r ≤ r ∧ stayF b.n b.m1 s r ≤ r + b.m1 - permF b.n s r := by
  by_cases hm : b.m1 ≤ b.n
  swap
  · rw [Band.decompose_rejects h (by omega)] at hd; cases hd
  obtain ⟨s', l, hdec, hinv⟩ := decompose_invF hu h hm
  rw [hd] at hdec
  injection hdec with hdec
  subst hdec
  have hidx := hinv.2.2.2.2.1
  simp only at hidx
  have hb : ∀ k', k' < b.n → k' ≤ idxf s.index k' - 1 ∧
      idxf s.index k' - 1 < min (b.m1 + k' + 1) b.n := by
    intro k' hk'
    have := hidx k' hk'
    omega
  constructor
  · have := age_le (n := b.n) (m1 := b.m1) b.n (fun k' hk' => (hb k' hk').1) r
    unfold stayF; omega
  · have := age_le_disp (n := b.n) (m1 := b.m1) b.n hb r
    unfold stayF permF
    have e : min r b.n = r := by omega
    rw [e] at this
    exact this

/-- **`Band.solve`, backward error** (Higham, Thm 9.4, for `bandec` + `banbks`).  Whenever
`solve b rhs` returns `x̂` in `Fl M` (`b` well formed, `u < 1`): with `s` the state returned by
`decompose b`, `π` its row permutation, `(B + ΔB) x̂ = rhs` holds EXACTLY for the dense twin `B` and
`|ΔB_{π r, c}| ≤ (gq (m1+m2+1) + gq (stayF r + m1+m2+1)) · (|L̂||Û|)_{rc}` for all `r, c < n`, where
`stayF r` is the number of elimination steps the row that ends at position `r` went through.
All pivots of `Û` are non-zero. -/
theorem solve_backward (hu : M.u < 1) {b : Band (Fl M)} (h : WFb b) {rhs x : Array (Fl M)}
    (hs : Band.solve b rhs = .ok x) :
    ∃ s : Dec (Fl M), Band.decompose b = .ok s ∧ x.size = b.n ∧ rhs.size = b.n ∧
      PermOK b.n (permF b.n s) (permInvF b.n s) ∧
      (∀ i, i < b.n → UhatS (b.m1 + b.m2 + 1) s i i ≠ 0) ∧
      ∃ ΔB : Nat → Nat → ℝ,
        (∀ i, i < b.n →
          ∑ j ∈ Finset.range b.n, ((dense b i j).val + ΔB i j) * (x[j]?.getD 0).val
            = (rhs[i]?.getD 0).val) ∧
        ∀ r c, r < b.n → c < b.n → |ΔB (permF b.n s r) c| ≤
          (M.gq (b.m1 + b.m2 + 1) + M.gq (stayF b.n b.m1 s r + (b.m1 + b.m2 + 1)))
            * absLUF b.n b.m1 (b.m1 + b.m2 + 1) s r c := by
  obtain ⟨s, l, hdec, hm, hr, hxs, hinv, hpiv, ΔB', hrow, hbd⟩ := solve_backward_coreF hu h hs
  have hperm := (decompose_backward hu h hdec).1
  refine ⟨s, hdec, hxs, hr, hperm, ?_, fun i j => ΔB' (permInvF b.n s i) j, ?_, ?_⟩
  · intro i hi
    unfold UhatS UhatF
    rw [if_pos (by omega), Nat.sub_self]
    exact hpiv i hi
  · intro i hi
    obtain ⟨hσ, hπσ⟩ := hperm.2 i hi
    have := hrow (permInvF b.n s i) hσ
    rw [hπσ] at this
    exact this
  · intro r c hr' hc
    show |ΔB' (permInvF b.n s (permF b.n s r)) c| ≤ _
    rw [(hperm.1 r hr').2]
    exact hbd r c hr' hc

/-- **uniform constant in `n`**: `|ΔB| ≤ (gq (m1+m2+1) + gq (n − 1 + m1+m2+1)) · Pᵀ|L̂||Û|` -/
theorem solve_backward_n (hu : M.u < 1) {b : Band (Fl M)} (h : WFb b) {rhs x : Array (Fl M)}
    (hs : Band.solve b rhs = .ok x) :
    ∃ s : Dec (Fl M), Band.decompose b = .ok s ∧ x.size = b.n ∧
      PermOK b.n (permF b.n s) (permInvF b.n s) ∧
      ∃ ΔB : Nat → Nat → ℝ,
        (∀ i, i < b.n →
          ∑ j ∈ Finset.range b.n, ((dense b i j).val + ΔB i j) * (x[j]?.getD 0).val
            = (rhs[i]?.getD 0).val) ∧
        ∀ r c, r < b.n → c < b.n → |ΔB (permF b.n s r) c| ≤
          (M.gq (b.m1 + b.m2 + 1) + M.gq (b.n - 1 + (b.m1 + b.m2 + 1)))
            * absLUF b.n b.m1 (b.m1 + b.m2 + 1) s r c := by
  obtain ⟨s, hdec, hxs, _, hperm, _, ΔB, hsol, hbd⟩ := solve_backward hu h hs
  refine ⟨s, hdec, hxs, hperm, ΔB, hsol, fun r c hr hc => (hbd r c hr hc).trans ?_⟩
  have := (stay_le hu h hdec r hr).1
  exact mul_le_mul_of_nonneg_right
    (add_le_add (le_refl _) (FlModel.gq_mono hu (by omega))) (absLUF_nonneg _ _ _ _ _ _)

/-- **the banded form** — PARTIAL (see the header): if the exchanges move no row down by more than
`d` positions (`r ≤ π r + d` for all `r`), then
`|ΔB| ≤ (gq (m1+m2+1) + gq (2 m1 + m2 + 1 + d)) · Pᵀ|L̂||Û|`, a constant that depends on the
bandwidths and on `d` only, not on `n`.  What is missing for the ideal statement (a constant in
`m1, m2` alone) is a bound on `d`; none exists in general, and the dependence on `d` is genuine. -/
theorem solve_backward_band_partial (hu : M.u < 1) {b : Band (Fl M)} (h : WFb b)
    {rhs x : Array (Fl M)} (hs : Band.solve b rhs = .ok x) :
    ∃ s : Dec (Fl M), Band.decompose b = .ok s ∧ x.size = b.n ∧
      PermOK b.n (permF b.n s) (permInvF b.n s) ∧
      ∃ ΔB : Nat → Nat → ℝ,
        (∀ i, i < b.n →
          ∑ j ∈ Finset.range b.n, ((dense b i j).val + ΔB i j) * (x[j]?.getD 0).val
            = (rhs[i]?.getD 0).val) ∧
        ∀ d, (∀ r, r < b.n → r ≤ permF b.n s r + d) →
          ∀ r c, r < b.n → c < b.n → |ΔB (permF b.n s r) c| ≤
            (M.gq (b.m1 + b.m2 + 1) + M.gq (2 * b.m1 + b.m2 + 1 + d))
              * absLUF b.n b.m1 (b.m1 + b.m2 + 1) s r c := by
  obtain ⟨s, hdec, hxs, _, hperm, _, ΔB, hsol, hbd⟩ := solve_backward hu h hs
  refine ⟨s, hdec, hxs, hperm, ΔB, hsol, fun d hd r c hr hc => (hbd r c hr hc).trans ?_⟩
  have h1 := (stay_le hu h hdec r hr).2
  have h2 := hd r hr
  exact mul_le_mul_of_nonneg_right
    (add_le_add (le_refl _) (FlModel.gq_mono hu (by omega))) (absLUF_nonneg _ _ _ _ _ _)

/-- **no row exchange**: if the run recorded no exchange (`s.index[k] = k + 1` for all `k`), then
`π = id`, `L̂` is the banded matrix of the stored multipliers (`Lhat_noexchange`) and
`|ΔB| ≤ (gq (m1+m2+1) + gq (2 m1 + m2 + 1)) · |L̂||Û|` componentwise. -/
theorem solve_backward_noexchange (hu : M.u < 1) {b : Band (Fl M)} (h : WFb b)
    {rhs x : Array (Fl M)} (hs : Band.solve b rhs = .ok x) :
    ∃ s : Dec (Fl M), Band.decompose b = .ok s ∧ x.size = b.n ∧
      ((∀ k, k < b.n → idxf s.index k = k + 1) →
        ∃ ΔB : Nat → Nat → ℝ,
          (∀ i, i < b.n →
            ∑ j ∈ Finset.range b.n, ((dense b i j).val + ΔB i j) * (x[j]?.getD 0).val
              = (rhs[i]?.getD 0).val) ∧
          ∀ r c, r < b.n → c < b.n → |ΔB r c| ≤
            (M.gq (b.m1 + b.m2 + 1) + M.gq (2 * b.m1 + b.m2 + 1))
              * absLUF b.n b.m1 (b.m1 + b.m2 + 1) s r c) := by
  obtain ⟨s, hdec, hxs, _, ΔB, hsol, hbd⟩ := solve_backward_band_partial hu h hs
  refine ⟨s, hdec, hxs, fun hne => ⟨ΔB, hsol, ?_⟩⟩
  have hid : ∀ r, permF b.n s r = r := by
    intro r
    unfold permF
    exact pik_id b.n (fun k' hk' => by rw [hne k' hk', Nat.add_sub_cancel]) r
  intro r c hr hc
  have := hbd 0 (fun r _ => by rw [hid r]; omega) r c hr hc
  rw [hid r, Nat.add_zero] at this
  exact this

/-- **upper-banded storage (`m1 = 0`)**: the window has a single row, so no exchange can happen, and
the banded constant holds unconditionally:
`|ΔB| ≤ (gq (m2+1) + gq (m2+1)) · |L̂||Û|` with `L̂ = I` — independent of `n`. -/
theorem solve_backward_upper (hu : M.u < 1) {b : Band (Fl M)} (h : WFb b) (hm : b.m1 = 0)
    {rhs x : Array (Fl M)} (hs : Band.solve b rhs = .ok x) :
    ∃ s : Dec (Fl M), Band.decompose b = .ok s ∧ x.size = b.n ∧
      ∃ ΔB : Nat → Nat → ℝ,
        (∀ i, i < b.n →
          ∑ j ∈ Finset.range b.n, ((dense b i j).val + ΔB i j) * (x[j]?.getD 0).val
            = (rhs[i]?.getD 0).val) ∧
        ∀ r c, r < b.n → c < b.n → |ΔB r c| ≤
          (M.gq (b.m2 + 1) + M.gq (b.m2 + 1)) * absLUF b.n b.m1 (b.m1 + b.m2 + 1) s r c := by
  obtain ⟨s, hdec, hxs, himp⟩ := solve_backward_noexchange hu h hs
  obtain ⟨s', l, hdec', hinv⟩ := decompose_invF hu h (by omega)
  rw [hdec] at hdec'
  injection hdec' with hdec'
  subst hdec'
  have hidx := hinv.2.2.2.2.1
  simp only at hidx
  obtain ⟨ΔB, hsol, hbd⟩ := himp (fun k hk => by have := hidx k hk; omega)
  refine ⟨s, hdec, hxs, ΔB, hsol, fun r c hr hc => ?_⟩
  have := hbd r c hr hc
  have e1 : M.gq (b.m1 + b.m2 + 1) = M.gq (b.m2 + 1) := by rw [hm, Nat.zero_add]
  have e2 : M.gq (2 * b.m1 + b.m2 + 1) = M.gq (b.m2 + 1) := by
    rw [hm, Nat.mul_zero, Nat.zero_add]
  rw [e1, e2] at this
  exact this

/-- **residual form** (what a test oracle can check): the residual of the computed solution is
bounded componentwise, `|rhs − B x̂|_{π r} ≤ (gq (m1+m2+1) + gq (n − 1 + m1+m2+1)) · (|L̂||Û||x̂|)_r` -/
theorem solve_residual (hu : M.u < 1) {b : Band (Fl M)} (h : WFb b) {rhs x : Array (Fl M)}
    (hs : Band.solve b rhs = .ok x) :
    ∃ s : Dec (Fl M), Band.decompose b = .ok s ∧ x.size = b.n ∧
      PermOK b.n (permF b.n s) (permInvF b.n s) ∧
      ∀ r, r < b.n →
        |(rhs[permF b.n s r]?.getD 0).val
            - ∑ j ∈ Finset.range b.n, (dense b (permF b.n s r) j).val * (x[j]?.getD 0).val|
          ≤ (M.gq (b.m1 + b.m2 + 1) + M.gq (b.n - 1 + (b.m1 + b.m2 + 1)))
            * ∑ j ∈ Finset.range b.n,
                absLUF b.n b.m1 (b.m1 + b.m2 + 1) s r j * |(x[j]?.getD 0).val| := by
  obtain ⟨s, hdec, hxs, hperm, ΔB, hsol, hbd⟩ := solve_backward_n hu h hs
  refine ⟨s, hdec, hxs, hperm, fun r hr => ?_⟩
  have hπ := (hperm.1 r hr).1
  rw [← hsol _ hπ, ← Finset.sum_sub_distrib, Finset.mul_sum]
  refine (Finset.abs_sum_le_sum_abs _ _).trans (Finset.sum_le_sum ?_)
  intro j hj
  have e : ((dense b (permF b.n s r) j).val + ΔB (permF b.n s r) j) * (x[j]?.getD 0).val
      - (dense b (permF b.n s r) j).val * (x[j]?.getD 0).val
      = ΔB (permF b.n s r) j * (x[j]?.getD 0).val := by ring
  rw [e, abs_mul, ← mul_assoc]
  exact mul_le_mul_of_nonneg_right (hbd r j hr (Finset.mem_range.mp hj)) (abs_nonneg _)

/-- **the classical constants** for `solve_backward_n`: with `N = n + m1 + m2`,
`|ΔB| ≤ (γ_{m1+m2+1} + γ_N) · Pᵀ|L̂||Û|`, `γ_k = k u / (1 − k u)`, when `N u < 1` -/
theorem solve_backward_gamma {b : Band (Fl M)} (h : WFb b) {rhs x : Array (Fl M)}
    (hn : 1 ≤ b.n) (hNu : ((b.n + b.m1 + b.m2 : ℕ) : ℝ) * M.u < 1)
    (hs : Band.solve b rhs = .ok x) :
    ∃ s : Dec (Fl M), Band.decompose b = .ok s ∧ x.size = b.n ∧
      PermOK b.n (permF b.n s) (permInvF b.n s) ∧
      ∃ ΔB : Nat → Nat → ℝ,
        (∀ i, i < b.n →
          ∑ j ∈ Finset.range b.n, ((dense b i j).val + ΔB i j) * (x[j]?.getD 0).val
            = (rhs[i]?.getD 0).val) ∧
        ∀ r c, r < b.n → c < b.n → |ΔB (permF b.n s r) c| ≤
          (((b.m1 + b.m2 + 1 : ℕ) : ℝ) * M.u / (1 - ((b.m1 + b.m2 + 1 : ℕ) : ℝ) * M.u)
            + ((b.n + b.m1 + b.m2 : ℕ) : ℝ) * M.u / (1 - ((b.n + b.m1 + b.m2 : ℕ) : ℝ) * M.u))
            * absLUF b.n b.m1 (b.m1 + b.m2 + 1) s r c := by
  have hu0 := M.u_nonneg
  have hN1 : (1 : ℝ) ≤ ((b.n + b.m1 + b.m2 : ℕ) : ℝ) := by
    have : 1 ≤ b.n + b.m1 + b.m2 := by omega
    exact_mod_cast this
  have hu : M.u < 1 := by nlinarith
  have hle : ((b.m1 + b.m2 + 1 : ℕ) : ℝ) ≤ ((b.n + b.m1 + b.m2 : ℕ) : ℝ) := by
    have : b.m1 + b.m2 + 1 ≤ b.n + b.m1 + b.m2 := by omega
    exact_mod_cast this
  have hmu : ((b.m1 + b.m2 + 1 : ℕ) : ℝ) * M.u < 1 := by nlinarith
  obtain ⟨s, hdec, hxs, hperm, ΔB, hsol, hbd⟩ := solve_backward_n hu h hs
  refine ⟨s, hdec, hxs, hperm, ΔB, hsol, fun r c hr hc => (hbd r c hr hc).trans ?_⟩
  have e : b.n - 1 + (b.m1 + b.m2 + 1) = b.n + b.m1 + b.m2 := by omega
  rw [e]
  exact mul_le_mul_of_nonneg_right
    (add_le_add (FlModel.gq_le_gamma _ hmu) (FlModel.gq_le_gamma _ hNu))
    (absLUF_nonneg _ _ _ _ _ _)

end Rounding

/-! ### non-vacuity -/

section Examples

/-- exact arithmetic is a model (`u = 0 < 1`); there all the constants vanish, `ΔB = 0`, and the
exact soundness theorem (`solve_sound` of C04B, for `Fl exact`) is recovered: `B x = rhs` -/
example {b : Band (Fl FlModel.exact)} (h : WFb b) {rhs x : Array (Fl FlModel.exact)}
    (hs : Band.solve b rhs = .ok x) :
    x.size = b.n ∧ ∀ i, i < b.n →
      ∑ j ∈ Finset.range b.n, (dense b i j).val * (x[j]?.getD 0).val = (rhs[i]?.getD 0).val := by
  have hu : FlModel.exact.u < 1 := by simp [FlModel.exact]
  obtain ⟨s, _, hxs, _, hperm, _, ΔB, hsol, hbd⟩ := solve_backward hu h hs
  refine ⟨hxs, fun i hi => ?_⟩
  rw [← hsol i hi]
  apply Finset.sum_congr rfl
  intro j hj
  obtain ⟨hσ, hπσ⟩ := hperm.2 i hi
  have := hbd (permInvF b.n s i) j hσ (Finset.mem_range.mp hj)
  rw [hπσ, FlModel.gq_exact, FlModel.gq_exact, add_zero, zero_mul] at this
  rw [abs_nonpos_iff.mp this, add_zero]

/-- in exact arithmetic the banded product is the exact dense product -/
example {b : Band (Fl FlModel.exact)} (h : WFb b) (v : Array (Fl FlModel.exact))
    (hv : v.size = b.n) :
    ∃ w, Band.mulVec b v = .ok w ∧ ∀ i, i < b.n →
      (w[i]?.getD 0).val = ∑ j ∈ Finset.range b.n, (dense b i j).val * (v[j]?.getD 0).val := by
  obtain ⟨w, hw, _, hwe⟩ := mulVec_rounding h v hv
  refine ⟨w, hw, fun i hi => ?_⟩
  have := hwe i hi
  have hg : FlModel.exact.gam (rowLen b i + 1) = 0 := by simp [FlModel.gam, FlModel.exact]
  rw [hg, zero_mul] at this
  exact sub_eq_zero.mp (abs_nonpos_iff.mp this)

/-! the tridiagonal `3 × 3` system of C04B (`m1 = m2 = 1`, dense matrix `[[1,2,0],[3,4,1],[0,1,1]]`,
garbage `7` in the two padding slots) evaluated in the exact model: BOTH pivot steps exchange rows
(`index = [2,3,3]`), `L̂ = [[1,0,0],[0,1,0],[1/3,2/3,1]]`, `Û = [[3,4,1],[0,1,1],[0,0,-1]]`,
`π = (0 1 2 ↦ 1 2 0)` -/

namespace Ex

abbrev E := Fl FlModel.exact

theorem E.add_eq (a b : E) : a + b = ⟨a.val + b.val⟩ := rfl
theorem E.sub_eq (a b : E) : a - b = ⟨a.val - b.val⟩ := rfl
theorem E.mul_eq (a b : E) : a * b = ⟨a.val * b.val⟩ := rfl
theorem E.neg_eq (a : E) : -a = ⟨-a.val⟩ := rfl
theorem E.lt_eq (a b : E) : ScalarExt.lt a b = decide (a.val < b.val) := rfl
theorem E.mag_eq (a : E) : ScalarExt.mag a = if a.val < 0 then -a else a := by
  simp only [ScalarExt.mag]
theorem E.divM_eq (a b : E) :
    divM a b = if b.val = 0 then .error .arith else .ok ⟨a.val / b.val⟩ := rfl

noncomputable def exBandE : Band E :=
  ⟨3, 1, 1, ⟨#[⟨7⟩, ⟨1⟩, ⟨2⟩, ⟨3⟩, ⟨4⟩, ⟨1⟩, ⟨1⟩, ⟨1⟩, ⟨7⟩], 3, 3⟩⟩
noncomputable def rhsE : Array E := #[⟨3⟩, ⟨8⟩, ⟨2⟩]

theorem wf_exBandE : WFb exBandE := ⟨_, Mat.Is.of_wf (by unfold Mat.WF; rfl)⟩

theorem decompose_exBandE :
    Band.decompose exBandE = .ok ⟨⟨#[⟨3⟩, ⟨4⟩, ⟨1⟩, ⟨1⟩, ⟨1⟩, ⟨7⟩, ⟨-1⟩, ⟨-14/3⟩, ⟨0⟩], 3, 3⟩,
      ⟨#[⟨1/3⟩, ⟨2/3⟩, ⟨0⟩], 3, 1⟩, #[2, 3, 3], ⟨1⟩⟩ := by
  have r1 : ∀ x : E, Array.replicate 3 x = #[x, x, x] := fun _ => rfl
  have r2 : ∀ x : Nat, Array.replicate 3 x = #[x, x, x] := fun _ => rfl
  norm_num [r1, r2, Band.decompose, exBandE, shiftRows, decStep, decElim, forM', Mat.new, Mat.set,
    aset, List.range', Mat.get, aget, usub, bind, Except.bind, pure, Except.pure, E.add_eq,
    E.sub_eq, E.mul_eq, E.neg_eq, E.lt_eq, E.mag_eq, E.divM_eq, swapElem, Fl.ext_iff]

theorem solve_exBandE : Band.solve exBandE rhsE = .ok #[⟨1⟩, ⟨1⟩, ⟨1⟩] := by
  have h1 : ¬ exBandE.n ≠ rhsE.size := by simp [exBandE, rhsE]
  simp only [Band.solve, h1, if_false, decompose_exBandE, bind, Except.bind]
  norm_num [exBandE, rhsE, forM', List.range', List.range, List.range.loop, Mat.get, aget, aset,
    usub, bind, Except.bind, pure, Except.pure, E.add_eq, E.sub_eq, E.mul_eq, E.divM_eq,
    Fl.ext_iff, Vec.swap]

/-- the hypotheses of `solve_backward` are satisfiable for a concrete tridiagonal system with
genuine row exchanges (`m1 = 1 > 0`), and its conclusion holds there with a permutation `π ≠ id` -/
example : ∃ (b : Band E) (rhs x : Array E), WFb b ∧ b.m1 = 1 ∧ FlModel.exact.u < 1 ∧
    Band.solve b rhs = .ok x ∧
    ∃ s : Dec E, Band.decompose b = .ok s ∧ permF b.n s 0 = 1 ∧ permF b.n s 2 = 0 ∧
      ∃ ΔB : Nat → Nat → ℝ,
        (∀ i, i < b.n →
          ∑ j ∈ Finset.range b.n, ((dense b i j).val + ΔB i j) * (x[j]?.getD 0).val
            = (rhs[i]?.getD 0).val) ∧
        ∀ r c, r < b.n → c < b.n → |ΔB (permF b.n s r) c| ≤
          (FlModel.exact.gq (b.m1 + b.m2 + 1)
              + FlModel.exact.gq (stayF b.n b.m1 s r + (b.m1 + b.m2 + 1)))
            * absLUF b.n b.m1 (b.m1 + b.m2 + 1) s r c := by
  have hu : FlModel.exact.u < 1 := by simp [FlModel.exact]
  obtain ⟨s, hd, _, _, _, _, ΔB, h1, h2⟩ := solve_backward hu wf_exBandE solve_exBandE
  refine ⟨exBandE, rhsE, _, wf_exBandE, rfl, hu, solve_exBandE, s, hd, ?_, ?_, ΔB, h1, h2⟩
  · rw [decompose_exBandE] at hd
    injection hd with hd
    rw [← hd]
    decide
  · rw [decompose_exBandE] at hd
    injection hd with hd
    rw [← hd]
    decide

/-! a model that really rounds, `fl x = (1+u) x` (`FlModel.scale`), and the `1 × 1` banded system
`2 x = 6`: the computed solution is `3 (1+u) ≠ 3` (one rounded division), so `ΔB ≠ 0`; the
hypotheses of `solve_backward` are satisfiable there for every `0 ≤ u < 1` -/

section Scale
variable (u : ℝ) (hu0 : 0 ≤ u)

abbrev S := Fl (FlModel.scale u hu0)

theorem S.lt_eq (a b : S u hu0) : ScalarExt.lt a b = decide (a.val < b.val) := rfl
theorem S.mag_eq (a : S u hu0) : ScalarExt.mag a = if a.val < 0 then -a else a := by
  simp only [ScalarExt.mag]
theorem S.divM_eq (a b : S u hu0) :
    divM a b = if b.val = 0 then .error .arith else .ok ⟨(1 + u) * (a.val / b.val)⟩ := rfl

theorem solve_scale :
    Band.solve (⟨1, 0, 0, ⟨#[⟨2⟩], 1, 1⟩⟩ : Band (S u hu0)) #[⟨6⟩] = .ok #[⟨(1 + u) * 3⟩] := by
  have r2 : ∀ x : Nat, Array.replicate 1 x = #[x] := fun _ => rfl
  norm_num [r2, Band.solve, Band.decompose, shiftRows, decStep, decElim, forM', Mat.new, Mat.set,
    aset, List.range', List.range, List.range.loop, Mat.get, aget, usub, bind, Except.bind, pure,
    Except.pure, S.lt_eq, S.mag_eq, S.divM_eq, Fl.ext_iff]

example (hu1 : u < 1) :
    ∃ (b : Band (S u hu0)) (rhs x : Array (S u hu0)), WFb b ∧ Band.solve b rhs = .ok x ∧
      (x[0]?.getD 0).val = (1 + u) * 3 ∧
      ∃ (s : Dec (S u hu0)) (ΔB : Nat → Nat → ℝ), Band.decompose b = .ok s ∧
        ((dense b 0 0).val + ΔB 0 0) * (x[0]?.getD 0).val = (rhs[0]?.getD 0).val ∧
        |ΔB (permF 1 s 0) 0| ≤ ((FlModel.scale u hu0).gq 1 + (FlModel.scale u hu0).gq (0 + 1))
          * absLUF 1 0 1 s 0 0 := by
  have hw : WFb (⟨1, 0, 0, ⟨#[⟨2⟩], 1, 1⟩⟩ : Band (S u hu0)) :=
    ⟨_, Mat.Is.of_wf (by unfold Mat.WF; rfl)⟩
  have hu : (FlModel.scale u hu0).u < 1 := hu1
  obtain ⟨s, hd, _, _, _, _, ΔB, hsol, hbd⟩ := solve_backward hu hw (solve_scale u hu0)
  refine ⟨_, _, _, hw, solve_scale u hu0, rfl, s, ΔB, hd, ?_, ?_⟩
  · have := hsol 0 (by show 0 < 1; omega)
    simpa using this
  · have h1 := hbd 0 0 (by show 0 < 1; omega) (by show 0 < 1; omega)
    have h2 := (stay_le hu hw hd 0 (by show 0 < 1; omega)).1
    have h3 : stayF 1 0 s 0 = 0 := Nat.le_zero.mp h2
    rw [h3] at h1
    exact h1

end Scale

end Ex

end Examples

end Ohsl.Props.C04
