/-
  Property C03 (part F) — rounding-error bounds for the dense-matrix operations in the "rounded
  reals" interpretation `Fl M` of the model (Ohsl/Lemmas/Rounding.lean): the SAME model definitions
  `Mat.mulVec`, `Mat.mul`, `Mat.add`, … instantiated at real numbers whose `+ - * /` round with
  relative error `≤ u` (standard model of floating-point arithmetic, no overflow / underflow).

  The transfer to the Rust `f64` code rests on the ASSUMPTION stated in Rounding.lean (IEEE binary64
  without overflow/underflow satisfies `FlModel` with `u = 2⁻⁵³`); it is not proved here.

  Notation: `Is A r c ea` = "`A` is a well-formed `r × c` matrix whose entry (i,j) is `ea i j`",
  `M.gam n = (1+u)^n - 1`.

  * `mulVec_rounding`   (F) component `i` of `A·v` (`A` is `r × c`, every shape):
        `|fl(Av)_i - Σ_j a_ij v_j| ≤ gam (c+1) · Σ_j |a_ij v_j|`
    (one rounding per product, `c` rounded additions: the model starts from `0 + p₀`, which the
    abstract model rounds, see `Fl.foldl_sum_rounding_sharp`).
  * `dotRC_rounding`, `mul_rounding` (F) entry (i,j) of `A·B` (`r×k · k×c`, every conformable shape):
        `|fl(AB)_ij - Σ_t a_it b_tj| ≤ gam (k+1) · Σ_t |a_it b_tj|`,  i.e. `|fl(AB) - AB| ≤ γ |A||B|`.
  * `mulVec_rounding_gamma`, `mul_rounding_gamma`: the same with `γ_{n} = n u / (1 - n u)`.
  * `add_rounding`, `sub_rounding`, `smul_rounding`, `sdiv_rounding`, `addS_rounding`,
    `subS_rounding` (F): every entry of the result is the exact entrywise result with relative
    error `≤ u`; `neg_exact`: negation is exact; `sdiv_zero_rejects`: `A / s` with `s = 0` on a
    non-empty matrix is the error `arith` (outside the standard model).
  * Norms.  ALL norm definitions of the model (`norm1`, `normInf`, `normMax`, `normP`, `normFrob`)
    live in the `Transc` section (they use `f64::abs`, `f64::max`, `powf`), and there is no
    `Transc (Fl M)` instance in Rounding.lean.  The theorems below hold for EVERY instance
    `Transc (Fl M)` whose `fabs` and `fmax` are exact (`hfabs`, `hfmax`; IEEE `abs` and `max` are
    exact); such an instance, `flTransc M` (every other `f64` function = the real function rounded
    once), is defined here and used in the examples.
      `norm1_rounding`   (F) `|fl(‖A‖₁) - ‖A‖₁| ≤ gam r · ‖A‖₁`   (`r` rounded additions per column)
      `normInf_rounding` (F) `|fl(‖A‖∞) - ‖A‖∞| ≤ gam c · ‖A‖∞`
      `normMax_exact`    (F) `norm_max` commits no rounding error at all.
    with `‖A‖₁ = exactNorm1 e r c = max0 c (column sums of |a_ij|)` (`max0_spec`: `max0 n g` is the
    maximum of `0, g 0, …, g (n-1)`).
    SKIPPED: `normP`, `normFrob` (they need `powf` — no standard-model statement without an error
    model for `powf`).  `lsmul` (also in the `Transc` section) is `lsmul_rounding` (same code as
    `smul`).
-/
import Ohsl.Props.C03M
import Ohsl.Props.C16F
import Ohsl.Lemmas.Rounding
import Ohsl.Lemmas.RealTransc
import Mathlib.Algebra.BigOperators.Intervals
import Mathlib.Algebra.Order.BigOperators.Group.Finset
import Mathlib.Tactic.Ring
import Mathlib.Tactic.Linarith
set_option linter.unusedSectionVars false
set_option linter.unusedVariables false
namespace Ohsl.Props.C03
open Ohsl Ohsl.Mat

/-! ### structural: loops as folds (any state type) -/

section Structural

/-- a loop whose body is the total function `h` is the left fold of `h` over `0 … n-1` -/
theorem forM'_eq_foldl {σ : Type} (n : Nat) (h : σ → Nat → σ) (F : σ → Nat → Res σ) (init : σ)
    (hF : ∀ s i, i < n → F s i = .ok (h s i)) :
    forM' 0 n init F = .ok ((List.range n).foldl h init) := by
  obtain ⟨s', hs', hP⟩ := forM'_inv (fun k (s : σ) => s = (List.range k).foldl h init)
    0 n init F (Nat.zero_le _) (by simp) (by
      intro k s _ hk hs
      refine ⟨h s k, hF s k hk, ?_⟩
      rw [hs, List.range_succ, List.foldl_append]
      rfl)
  rw [hs', hP]

/-- an accumulation loop `s += g i` is the left fold of `+` over the list of the `g i` -/
theorem forM'_eq_foldl_add {K : Type} [Add K] (n : Nat) (g : Nat → K) (F : K → Nat → Res K)
    (init : K) (hF : ∀ s i, i < n → F s i = .ok (s + g i)) :
    forM' 0 n init F = .ok (((List.range n).map g).foldl (· + ·) init) := by
  rw [forM'_eq_foldl n (fun s i => s + g i) F init hF, List.foldl_map]

/-- reading a component of an array built from an index function -/
theorem getD_map_range {K : Type} (n : Nat) (f : Nat → K) (d : K) (i : Nat) (hi : i < n) :
    ((List.range n).map f).toArray.getD i d = f i := by
  simp [Array.getD, hi]

end Structural

/-! ### the maximum of `0, g 0, …, g (n-1)` -/

section Max0

/-- `max0 n g = max (0, g 0, …, g (n-1))` -/
def max0 : Nat → (Nat → ℝ) → ℝ
  | 0, _ => 0
  | n + 1, g => max (max0 n g) (g n)

theorem max0_nonneg (n : Nat) (g : Nat → ℝ) : 0 ≤ max0 n g := by
  induction n with
  | zero => exact le_refl _
  | succ n ih => exact ih.trans (le_max_left _ _)

theorem le_max0 {n : Nat} (g : Nat → ℝ) {j : Nat} (hj : j < n) : g j ≤ max0 n g := by
  induction n with
  | zero => omega
  | succ n ih =>
    rcases Nat.lt_succ_iff_lt_or_eq.mp hj with h | rfl
    · exact (ih h).trans (le_max_left _ _)
    · exact le_max_right _ _

theorem max0_le {n : Nat} (g : Nat → ℝ) {b : ℝ} (hb : 0 ≤ b) (h : ∀ j, j < n → g j ≤ b) :
    max0 n g ≤ b := by
  induction n with
  | zero => exact hb
  | succ n ih => exact max_le (ih (fun j hj => h j (by omega))) (h n (by omega))

theorem max0_attained (n : Nat) (g : Nat → ℝ) : max0 n g = 0 ∨ ∃ j, j < n ∧ max0 n g = g j := by
  induction n with
  | zero => exact Or.inl rfl
  | succ n ih =>
    show max (max0 n g) (g n) = 0 ∨ ∃ j, j < n + 1 ∧ max (max0 n g) (g n) = g j
    rcases max_choice (max0 n g) (g n) with h | h
    · rw [h]
      rcases ih with h0 | ⟨j, hj, hjg⟩
      · exact Or.inl h0
      · exact Or.inr ⟨j, by omega, hjg⟩
    · exact Or.inr ⟨n, by omega, h⟩

/-- `max0 n g` is THE maximum of `0` and the `g j`, `j < n` (the characterisation used by
`norm1_spec` / `normInf_spec` in C03N) -/
theorem max0_spec (n : Nat) (g : Nat → ℝ) :
    0 ≤ max0 n g ∧ (∀ j, j < n → g j ≤ max0 n g) ∧ (max0 n g = 0 ∨ ∃ j, j < n ∧ max0 n g = g j) :=
  ⟨max0_nonneg n g, fun _ hj => le_max0 g hj, max0_attained n g⟩

theorem max0_congr {n : Nat} {g g' : Nat → ℝ} (h : ∀ j, j < n → g j = g' j) :
    max0 n g = max0 n g' := by
  induction n with
  | zero => rfl
  | succ n ih =>
    show max (max0 n g) (g n) = max (max0 n g') (g' n)
    rw [ih (fun j hj => h j (by omega)), h n (by omega)]

/-- the running maximum started from a non-negative value -/
theorem foldl_max_eq (n : Nat) (g : Nat → ℝ) (init : ℝ) (h0 : 0 ≤ init) :
    (List.range n).foldl (fun v j => max v (g j)) init = max init (max0 n g) := by
  induction n with
  | zero => simp [max0, h0]
  | succ n ih =>
    rw [List.range_succ, List.foldl_append, ih]
    simp [max0, max_assoc]

/-- **perturbation of a maximum**: componentwise relative perturbations of size `ε` move the
maximum by at most `ε` relatively (`|max x - max y| ≤ max |x - y|`) -/
theorem max0_perturb (n : Nat) (x y : Nat → ℝ) (ε : ℝ) (hε : 0 ≤ ε)
    (h : ∀ j, j < n → |x j - y j| ≤ ε * y j) :
    |max0 n x - max0 n y| ≤ ε * max0 n y := by
  have hy := max0_nonneg n y
  have hx := max0_nonneg n x
  have hεy : 0 ≤ ε * max0 n y := mul_nonneg hε hy
  have h1 : max0 n x ≤ max0 n y + ε * max0 n y := by
    apply max0_le x (by linarith)
    intro j hj
    have := (abs_le.mp (h j hj)).2
    have h2 := le_max0 y hj
    have := mul_le_mul_of_nonneg_left h2 hε
    linarith
  have h2 : max0 n y ≤ max0 n x + ε * max0 n y := by
    apply max0_le y (by linarith)
    intro j hj
    have := (abs_le.mp (h j hj)).1
    have h2 := le_max0 y hj
    have h3 := le_max0 x hj
    have := mul_le_mul_of_nonneg_left h2 hε
    linarith
  rw [abs_le]
  constructor <;> linarith

end Max0

/-! ### the rounded-reals interpretation -/

section Rounding
variable {M : FlModel}
open Fl Ohsl.Props.C16

/-- the ordered dot product of two arrays of equal length, as the code computes it -/
theorem zipWith_fold_rounding (a b : Array (Fl M)) (h : a.size = b.size) :
    |((Array.zipWith (· * ·) a b).foldl (· + ·) 0).val - exactDot a b|
      ≤ M.gam (a.size + 1) * absDot a b := by
  obtain ⟨r, hr, hr'⟩ := dot_rounding a b h
  have : Vec.dot a b = .ok ((Array.zipWith (· * ·) a b).foldl (· + ·) 0) := by
    simp [Vec.dot, h]
  rw [this] at hr
  cases hr
  exact hr'

/-- the ordered dot product of a row given by an index function with a vector -/
theorem rowDot_rounding (f : Nat → Fl M) (v : Array (Fl M)) (c : Nat) (hv : v.size = c) :
    |((Array.zipWith (· * ·) ((List.range c).map f).toArray v).foldl (· + ·) 0).val
        - ∑ j ∈ Finset.range c, (f j).val * (v.getD j 0).val|
      ≤ M.gam (c + 1) * ∑ j ∈ Finset.range c, |(f j).val * (v.getD j 0).val| := by
  have hsz : ((List.range c).map f).toArray.size = c := by simp
  have h := zipWith_fold_rounding ((List.range c).map f).toArray v (by rw [hsz, hv])
  have e1 : exactDot ((List.range c).map f).toArray v
      = ∑ j ∈ Finset.range c, (f j).val * (v.getD j 0).val := by
    rw [exactDot, hsz]
    apply Finset.sum_congr rfl
    intro j hj
    rw [term, getD_map_range c f 0 j (Finset.mem_range.mp hj)]
  have e2 : absDot ((List.range c).map f).toArray v
      = ∑ j ∈ Finset.range c, |(f j).val * (v.getD j 0).val| := by
    rw [absDot, hsz]
    apply Finset.sum_congr rfl
    intro j hj
    rw [term, getD_map_range c f 0 j (Finset.mem_range.mp hj)]
  rwa [e1, e2, hsz] at h

/-- **matrix · vector**, componentwise, every shape `r × c`:
`|fl(Av)_i - Σ_j a_ij v_j| ≤ gam (c+1) · Σ_j |a_ij v_j|`. -/
theorem mulVec_rounding {A : Mat (Fl M)} {r c : Nat} {ea : Nat → Nat → Fl M} (hA : Is A r c ea)
    (v : Array (Fl M)) (hv : v.size = c) :
    ∃ w, mulVec A v = .ok w ∧ w.size = r ∧
      ∀ i, i < r →
        |(w.getD i 0).val - ∑ j ∈ Finset.range c, (ea i j).val * (v.getD j 0).val|
          ≤ M.gam (c + 1) * ∑ j ∈ Finset.range c, |(ea i j).val * (v.getD j 0).val| := by
  refine ⟨_, mulVec_spec hA v hv, by simp, ?_⟩
  intro i hi
  rw [getD_map_range r _ 0 i hi]
  exact rowDot_rounding (fun j => ea i j) v c hv

/-- the classical constant `γ_{c+1}` for `mulVec_rounding` -/
theorem mulVec_rounding_gamma {A : Mat (Fl M)} {r c : Nat} {ea : Nat → Nat → Fl M}
    (hA : Is A r c ea) (v : Array (Fl M)) (hv : v.size = c)
    (hu : ((c + 1 : ℕ) : ℝ) * M.u < 1) :
    ∃ w, mulVec A v = .ok w ∧ w.size = r ∧
      ∀ i, i < r →
        |(w.getD i 0).val - ∑ j ∈ Finset.range c, (ea i j).val * (v.getD j 0).val|
          ≤ ((c + 1 : ℕ) : ℝ) * M.u / (1 - ((c + 1 : ℕ) : ℝ) * M.u)
              * ∑ j ∈ Finset.range c, |(ea i j).val * (v.getD j 0).val| := by
  obtain ⟨w, hw, hs, hb⟩ := mulVec_rounding hA v hv
  refine ⟨w, hw, hs, fun i hi => (hb i hi).trans ?_⟩
  exact mul_le_mul_of_nonneg_right (M.gam_le_gamma _ hu)
    (Finset.sum_nonneg (fun _ _ => abs_nonneg _))

/-- the product entry as the code computes it (`dotRC`) against the exact `Σ_t a_it b_tj` -/
theorem dotRC_rounding (ea eb : Nat → Nat → Fl M) (k i j : Nat) :
    |(dotRC ea eb k i j).val - ∑ t ∈ Finset.range k, (ea i t).val * (eb t j).val|
      ≤ M.gam (k + 1) * ∑ t ∈ Finset.range k, |(ea i t).val * (eb t j).val| := by
  have h := rowDot_rounding (fun t => ea i t) ((List.range k).map (fun t => eb t j)).toArray k
    (by simp)
  have e : ∀ g : ℝ → ℝ, ∑ t ∈ Finset.range k,
        g ((ea i t).val * (((List.range k).map (fun t => eb t j)).toArray.getD t 0).val)
      = ∑ t ∈ Finset.range k, g ((ea i t).val * (eb t j).val) := by
    intro g
    apply Finset.sum_congr rfl
    intro t ht
    rw [getD_map_range k _ 0 t (Finset.mem_range.mp ht)]
  have e1 := e id
  have e2 := e (fun x => |x|)
  simp only [id] at e1 e2
  rw [e1, e2] at h
  exact h

/-- **matrix · matrix**, componentwise, EVERY conformable pair of shapes `r×k · k×c`:
the call succeeds with a well-formed `r × c` matrix and
`|fl(AB)_ij - Σ_t a_it b_tj| ≤ gam (k+1) · Σ_t |a_it b_tj|`  (`|fl(AB) - AB| ≤ γ_{k+1} |A||B|`). -/
theorem mul_rounding {A B : Mat (Fl M)} {r k c : Nat} {ea eb : Nat → Nat → Fl M}
    (hA : Is A r k ea) (hB : Is B k c eb) :
    ∃ p, mul A B = .ok p ∧ Is p r c (dotRC ea eb k) ∧
      ∀ i j, i < r → j < c → ∃ x, p.get i j = .ok x ∧
        |x.val - ∑ t ∈ Finset.range k, (ea i t).val * (eb t j).val|
          ≤ M.gam (k + 1) * ∑ t ∈ Finset.range k, |(ea i t).val * (eb t j).val| := by
  obtain ⟨p, hp, hI⟩ := mul_spec hA hB
  exact ⟨p, hp, hI, fun i j hi hj => ⟨_, hI.entry i j hi hj, dotRC_rounding ea eb k i j⟩⟩

/-- the classical constant `γ_{k+1}` for `mul_rounding` -/
theorem mul_rounding_gamma {A B : Mat (Fl M)} {r k c : Nat} {ea eb : Nat → Nat → Fl M}
    (hA : Is A r k ea) (hB : Is B k c eb) (hu : ((k + 1 : ℕ) : ℝ) * M.u < 1) :
    ∃ p, mul A B = .ok p ∧ Is p r c (dotRC ea eb k) ∧
      ∀ i j, i < r → j < c → ∃ x, p.get i j = .ok x ∧
        |x.val - ∑ t ∈ Finset.range k, (ea i t).val * (eb t j).val|
          ≤ ((k + 1 : ℕ) : ℝ) * M.u / (1 - ((k + 1 : ℕ) : ℝ) * M.u)
              * ∑ t ∈ Finset.range k, |(ea i t).val * (eb t j).val| := by
  obtain ⟨p, hp, hI, hb⟩ := mul_rounding hA hB
  refine ⟨p, hp, hI, fun i j hi hj => ?_⟩
  obtain ⟨x, hx, hx'⟩ := hb i j hi hj
  exact ⟨x, hx, hx'.trans (mul_le_mul_of_nonneg_right (M.gam_le_gamma _ hu)
    (Finset.sum_nonneg (fun _ _ => abs_nonneg _)))⟩

/-! #### elementwise operations: one rounding per entry -/

/-- `&a + &b`: every entry is the exact sum with relative error `≤ u` -/
theorem add_rounding {A B : Mat (Fl M)} {r c : Nat} {ea eb : Nat → Nat → Fl M}
    (hA : Is A r c ea) (hB : Is B r c eb) :
    ∃ p, add A B = .ok p ∧ Is p r c (fun i j => ea i j + eb i j) ∧
      ∀ i j, i < r → j < c → ∃ x, p.get i j = .ok x ∧
        |x.val - ((ea i j).val + (eb i j).val)| ≤ M.u * |(ea i j).val + (eb i j).val| := by
  obtain ⟨p, hp, hI⟩ := add_correct hA hB
  exact ⟨p, hp, hI, fun i j hi hj => ⟨_, hI.entry i j hi hj, Fl.add_err _ _⟩⟩

/-- `&a - &b`: every entry is the exact difference with relative error `≤ u` -/
theorem sub_rounding {A B : Mat (Fl M)} {r c : Nat} {ea eb : Nat → Nat → Fl M}
    (hA : Is A r c ea) (hB : Is B r c eb) :
    ∃ p, sub A B = .ok p ∧ Is p r c (fun i j => ea i j - eb i j) ∧
      ∀ i j, i < r → j < c → ∃ x, p.get i j = .ok x ∧
        |x.val - ((ea i j).val - (eb i j).val)| ≤ M.u * |(ea i j).val - (eb i j).val| := by
  obtain ⟨p, hp, hI⟩ := sub_correct hA hB
  exact ⟨p, hp, hI, fun i j hi hj => ⟨_, hI.entry i j hi hj, Fl.sub_err _ _⟩⟩

/-- unary `-`: exact -/
theorem neg_exact {A : Mat (Fl M)} {r c : Nat} {e : Nat → Nat → Fl M} (hA : Is A r c e) :
    ∃ p, neg A = .ok p ∧ Is p r c (fun i j => - e i j) ∧
      ∀ i j, i < r → j < c → ∃ x, p.get i j = .ok x ∧ x.val = - (e i j).val := by
  obtain ⟨p, hp, hI⟩ := neg_correct hA
  exact ⟨p, hp, hI, fun i j hi hj => ⟨_, hI.entry i j hi hj, rfl⟩⟩

/-- `matrix * scalar`: every entry is the exact product with relative error `≤ u` -/
theorem smul_rounding {A : Mat (Fl M)} {r c : Nat} {e : Nat → Nat → Fl M} (hA : Is A r c e)
    (s : Fl M) :
    ∃ p, smul A s = .ok p ∧ Is p r c (fun i j => e i j * s) ∧
      ∀ i j, i < r → j < c → ∃ x, p.get i j = .ok x ∧
        |x.val - (e i j).val * s.val| ≤ M.u * |(e i j).val * s.val| := by
  obtain ⟨p, hp, hI⟩ := smul_correct hA s
  exact ⟨p, hp, hI, fun i j hi hj => ⟨_, hI.entry i j hi hj, Fl.mul_err _ _⟩⟩

/-- `matrix / scalar` for a non-zero scalar: never fails, every entry is the exact quotient with
relative error `≤ u` -/
theorem sdiv_rounding {A : Mat (Fl M)} {r c : Nat} {e : Nat → Nat → Fl M} (hA : Is A r c e)
    (s : Fl M) (hs : s.val ≠ 0) :
    ∃ p, sdiv A s = .ok p ∧ Is p r c (fun i j => e i j / s) ∧
      ∀ i j, i < r → j < c → ∃ x, p.get i j = .ok x ∧
        |x.val - (e i j).val / s.val| ≤ M.u * |(e i j).val / s.val| := by
  obtain ⟨p, hp, hI⟩ := sdiv_correct hA s (fun x => x / s)
    (fun i j _ _ => by simp [ScalarExt.divM, hs])
  exact ⟨p, hp, hI, fun i j hi hj => ⟨_, hI.entry i j hi hj, Fl.div_err _ _⟩⟩

/-- division of a non-empty matrix by an exact zero is outside the standard model: error `arith` -/
theorem sdiv_zero_rejects {A : Mat (Fl M)} {r c : Nat} {e : Nat → Nat → Fl M} (hA : Is A r c e)
    (hr : 0 < r) (hc : 0 < c) (s : Fl M) (hs : s.val = 0) : sdiv A s = .error .arith :=
  mapM1_guard _ hA hr hc .arith (by simp [ScalarExt.divM, hs])

/-- `matrix + scalar` -/
theorem addS_rounding {A : Mat (Fl M)} {r c : Nat} {e : Nat → Nat → Fl M} (hA : Is A r c e)
    (s : Fl M) :
    ∃ p, addS A s = .ok p ∧ Is p r c (fun i j => e i j + s) ∧
      ∀ i j, i < r → j < c → ∃ x, p.get i j = .ok x ∧
        |x.val - ((e i j).val + s.val)| ≤ M.u * |(e i j).val + s.val| := by
  obtain ⟨p, hp, hI⟩ := addS_correct hA s
  exact ⟨p, hp, hI, fun i j hi hj => ⟨_, hI.entry i j hi hj, Fl.add_err _ _⟩⟩

/-- `matrix - scalar` -/
theorem subS_rounding {A : Mat (Fl M)} {r c : Nat} {e : Nat → Nat → Fl M} (hA : Is A r c e)
    (s : Fl M) :
    ∃ p, subS A s = .ok p ∧ Is p r c (fun i j => e i j - s) ∧
      ∀ i j, i < r → j < c → ∃ x, p.get i j = .ok x ∧
        |x.val - ((e i j).val - s.val)| ≤ M.u * |(e i j).val - s.val| := by
  obtain ⟨p, hp, hI⟩ := subS_correct hA s
  exact ⟨p, hp, hI, fun i j hi hj => ⟨_, hI.entry i j hi hj, Fl.sub_err _ _⟩⟩

/-! #### norms -/

/-- A `Transc (Fl M)` instance for the rounded reals (NOT a global instance): `fabs`, `fmax`, `<=`
and the constants are exact, every other `f64`-only function is the real function (of
`Ohsl.RealI.transc`) rounded once.  Only `fabs` and `fmax` matter below. -/
@[instance_reducible] noncomputable def flTransc (M : FlModel) : Transc (Fl M) where
  sqrt x := ⟨M.fl (Transc.sqrt x.val)⟩
  sin x := ⟨M.fl (Transc.sin x.val)⟩
  cos x := ⟨M.fl (Transc.cos x.val)⟩
  tan x := ⟨M.fl (Transc.tan x.val)⟩
  exp x := ⟨M.fl (Transc.exp x.val)⟩
  ln x := ⟨M.fl (Transc.ln x.val)⟩
  sinh x := ⟨M.fl (Transc.sinh x.val)⟩
  cosh x := ⟨M.fl (Transc.cosh x.val)⟩
  fabs x := ⟨|x.val|⟩
  atan2 y x := ⟨M.fl (Transc.atan2 y.val x.val)⟩
  powf x y := ⟨M.fl (Transc.powf x.val y.val)⟩
  fmax x y := ⟨max x.val y.val⟩
  ofNat n := ⟨M.fl (n : ℝ)⟩
  le a b := Transc.le a.val b.val
  half := ⟨Transc.half⟩
  piHalf := ⟨M.fl Transc.piHalf⟩
  eps := ⟨Transc.eps⟩
  snap := ⟨M.fl Transc.snap⟩

/-- the exact `‖A‖₁`: the maximum absolute column sum (`0` without columns) -/
noncomputable def exactNorm1 (e : Nat → Nat → Fl M) (r c : Nat) : ℝ :=
  max0 c (fun j => ∑ i ∈ Finset.range r, |(e i j).val|)
/-- the exact `‖A‖∞`: the maximum absolute row sum (`0` without rows) -/
noncomputable def exactNormInf (e : Nat → Nat → Fl M) (r c : Nat) : ℝ :=
  max0 r (fun i => ∑ j ∈ Finset.range c, |(e i j).val|)
/-- the exact `max |a_ij|` (`0` for an empty matrix) -/
noncomputable def exactNormMax (e : Nat → Nat → Fl M) (r c : Nat) : ℝ :=
  max0 r (fun i => max0 c (fun j => |(e i j).val|))

variable [T : Transc (Fl M)]

/-- a computed sum of `n` exact absolute values, accumulated from `0` -/
theorem absSum_rounding (hfabs : ∀ x : Fl M, (Transc.fabs x).val = |x.val|) (n : Nat)
    (f : Nat → Fl M) :
    |(((List.range n).map (fun i => Transc.fabs (f i))).foldl (· + ·) (0 : Fl M)).val
        - (∑ i ∈ Finset.range n, |(f i).val|)|
      ≤ M.gam n * ∑ i ∈ Finset.range n, |(f i).val| := by
  have h := foldl_sum_rounding ((List.range n).map (fun i => Transc.fabs (f i)))
  rw [List.length_map, List.length_range, rsum_map, asum_map] at h
  simp only [hfabs, abs_abs] at h
  rwa [sum_map_range] at h

/-- the running `fmax` of computed values is the maximum of their values -/
theorem foldl_fmax_val (hfmax : ∀ x y : Fl M, (Transc.fmax x y).val = max x.val y.val) (n : Nat)
    (s : Nat → Fl M) (init : Fl M) (h0 : 0 ≤ init.val) :
    ((List.range n).foldl (fun v j => Transc.fmax v (s j)) init).val
      = max init.val (max0 n (fun j => (s j).val)) := by
  rw [← foldl_max_eq n (fun j => (s j).val) init.val h0]
  induction n with
  | zero => simp
  | succ n ih => simp only [List.range_succ, List.foldl_append, List.foldl_cons, List.foldl_nil,
      hfmax, ih]

/-- "max of computed absolute sums" against "max of exact absolute sums" — the common part of
`norm_1` and `norm_inf`: `outer` sums of `inner` terms each -/
theorem maxAbsSum_rounding (hfabs : ∀ x : Fl M, (Transc.fabs x).val = |x.val|)
    (hfmax : ∀ x y : Fl M, (Transc.fmax x y).val = max x.val y.val)
    (outer inner : Nat) (g : Nat → Nat → Fl M) (get : Nat → Nat → Res (Fl M))
    (hget : ∀ a b, a < outer → b < inner → get a b = .ok (g a b)) :
    ∃ v, forM' 0 outer (0 : Fl M) (fun result a => do
        let s ← forM' 0 inner (0 : Fl M) (fun s b => do
          let x ← get a b
          pure (s + Transc.fabs x))
        pure (Transc.fmax result s)) = .ok v ∧
      |v.val - max0 outer (fun a => ∑ b ∈ Finset.range inner, |(g a b).val|)|
        ≤ M.gam inner * max0 outer (fun a => ∑ b ∈ Finset.range inner, |(g a b).val|) := by
  -- the computed inner sums
  let S : Nat → Fl M := fun a =>
    ((List.range inner).map (fun b => Transc.fabs (g a b))).foldl (· + ·) (0 : Fl M)
  have hinner : ∀ a, a < outer → forM' 0 inner (0 : Fl M) (fun s b => do
        let x ← get a b
        pure (s + Transc.fabs x)) = .ok (S a) := by
    intro a ha
    exact forM'_eq_foldl_add inner (fun b => Transc.fabs (g a b)) _ 0 (by
      intro s b hb
      simp only [hget a b ha hb, bind, Except.bind, pure, Except.pure])
  have houter := forM'_eq_foldl outer (fun v a => Transc.fmax v (S a)) (fun result a => do
        let s ← forM' 0 inner (0 : Fl M) (fun s b => do
          let x ← get a b
          pure (s + Transc.fabs x))
        pure (Transc.fmax result s)) (0 : Fl M) (by
    intro v a ha
    simp only [hinner a ha]
    simp only [bind, Except.bind, pure, Except.pure])
  refine ⟨_, houter, ?_⟩
  rw [foldl_fmax_val hfmax outer S 0 (le_refl _)]
  have h0 : (0 : Fl M).val = 0 := rfl
  rw [h0, max_eq_right (max0_nonneg _ _)]
  exact max0_perturb outer _ _ (M.gam inner) (M.gam_nonneg _)
    (fun a _ => absSum_rounding hfabs inner (fun b => g a b))

/-- **`norm_1`**: never fails on a well-formed matrix; the computed value is the exact maximum
absolute column sum up to the relative error `gam r` (`r` rounded additions per column; `abs` and
`max` are exact). -/
theorem norm1_rounding (hfabs : ∀ x : Fl M, (Transc.fabs x).val = |x.val|)
    (hfmax : ∀ x y : Fl M, (Transc.fmax x y).val = max x.val y.val)
    {A : Mat (Fl M)} {r c : Nat} {e : Nat → Nat → Fl M} (hA : Is A r c e) :
    ∃ v, Mat.norm1 A = .ok v ∧
      |v.val - exactNorm1 e r c| ≤ M.gam r * exactNorm1 e r c := by
  simp only [Mat.norm1, hA.rows, hA.cols]
  exact maxAbsSum_rounding hfabs hfmax c r (fun j i => e i j) (fun j i => A.get i j)
    (fun j i hj hi => hA.entry i j hi hj)

/-- **`norm_inf`**: never fails on a well-formed matrix; the computed value is the exact maximum
absolute row sum up to the relative error `gam c`. -/
theorem normInf_rounding (hfabs : ∀ x : Fl M, (Transc.fabs x).val = |x.val|)
    (hfmax : ∀ x y : Fl M, (Transc.fmax x y).val = max x.val y.val)
    {A : Mat (Fl M)} {r c : Nat} {e : Nat → Nat → Fl M} (hA : Is A r c e) :
    ∃ v, Mat.normInf A = .ok v ∧
      |v.val - exactNormInf e r c| ≤ M.gam c * exactNormInf e r c := by
  simp only [Mat.normInf, hA.rows, hA.cols]
  exact maxAbsSum_rounding hfabs hfmax r c e (fun i j => A.get i j)
    (fun i j hi hj => hA.entry i j hi hj)

/-- the classical constants for the two norms -/
theorem norm1_rounding_gamma (hfabs : ∀ x : Fl M, (Transc.fabs x).val = |x.val|)
    (hfmax : ∀ x y : Fl M, (Transc.fmax x y).val = max x.val y.val)
    {A : Mat (Fl M)} {r c : Nat} {e : Nat → Nat → Fl M} (hA : Is A r c e)
    (hu : (r : ℝ) * M.u < 1) :
    ∃ v, Mat.norm1 A = .ok v ∧
      |v.val - exactNorm1 e r c| ≤ (r : ℝ) * M.u / (1 - (r : ℝ) * M.u) * exactNorm1 e r c := by
  obtain ⟨v, hv, hv'⟩ := norm1_rounding hfabs hfmax hA
  exact ⟨v, hv, hv'.trans (mul_le_mul_of_nonneg_right (M.gam_le_gamma _ hu) (max0_nonneg _ _))⟩

theorem normInf_rounding_gamma (hfabs : ∀ x : Fl M, (Transc.fabs x).val = |x.val|)
    (hfmax : ∀ x y : Fl M, (Transc.fmax x y).val = max x.val y.val)
    {A : Mat (Fl M)} {r c : Nat} {e : Nat → Nat → Fl M} (hA : Is A r c e)
    (hu : (c : ℝ) * M.u < 1) :
    ∃ v, Mat.normInf A = .ok v ∧
      |v.val - exactNormInf e r c| ≤ (c : ℝ) * M.u / (1 - (c : ℝ) * M.u) * exactNormInf e r c := by
  obtain ⟨v, hv, hv'⟩ := normInf_rounding hfabs hfmax hA
  exact ⟨v, hv, hv'.trans (mul_le_mul_of_nonneg_right (M.gam_le_gamma _ hu) (max0_nonneg _ _))⟩

/-- **`norm_max`** commits no rounding error: the result is exactly `max |a_ij|` -/
theorem normMax_exact (hfabs : ∀ x : Fl M, (Transc.fabs x).val = |x.val|)
    (hfmax : ∀ x y : Fl M, (Transc.fmax x y).val = max x.val y.val)
    {A : Mat (Fl M)} {r c : Nat} {e : Nat → Nat → Fl M} (hA : Is A r c e) :
    ∃ v, Mat.normMax A = .ok v ∧ v.val = exactNormMax e r c := by
  simp only [Mat.normMax, hA.rows, hA.cols]
  -- one row, from a non-negative start
  have hrow : ∀ i, i < r → ∀ v0 : Fl M, forM' 0 c v0 (fun r j => do
        let x ← A.get i j
        pure (Transc.fmax r (Transc.fabs x)))
      = .ok ((List.range c).foldl (fun v j => Transc.fmax v (Transc.fabs (e i j))) v0) := by
    intro i hi v0
    exact forM'_eq_foldl c (fun v j => Transc.fmax v (Transc.fabs (e i j))) _ v0 (by
      intro s j hj
      simp only [hA.entry i j hi hj, bind, Except.bind, pure, Except.pure])
  obtain ⟨v, hv, hP⟩ := forM'_inv
    (fun k (v : Fl M) => v.val = max0 k (fun i => max0 c (fun j => |(e i j).val|)))
    0 r (0 : Fl M) (fun r i => forM' 0 c r (fun r j => do
        let x ← A.get i j
        pure (Transc.fmax r (Transc.fabs x)))) (Nat.zero_le _) rfl (by
      intro k v _ hk hvk
      refine ⟨_, hrow k hk v, ?_⟩
      rw [foldl_fmax_val hfmax c (fun j => Transc.fabs (e k j)) v
        (by rw [hvk]; exact max0_nonneg _ _), hvk]
      simp only [hfabs]
      rfl)
  exact ⟨v, hv, hP⟩

/-- `f64 * Matrix<f64>` (same code as `matrix * scalar`) -/
theorem lsmul_rounding {A : Mat (Fl M)} {r c : Nat} {e : Nat → Nat → Fl M} (hA : Is A r c e)
    (s : Fl M) :
    ∃ p, lsmul s A = .ok p ∧ Is p r c (fun i j => e i j * s) ∧
      ∀ i j, i < r → j < c → ∃ x, p.get i j = .ok x ∧
        |x.val - (e i j).val * s.val| ≤ M.u * |(e i j).val * s.val| :=
  smul_rounding hA s

end Rounding

/-! ### non-vacuity -/

section Examples
open Fl
attribute [local instance] flTransc

/-- exact arithmetic is a model; there `mul_rounding` collapses to "the product entries are the
exact sums" -/
example {A B : Mat (Fl FlModel.exact)} {r k c : Nat} {ea eb : Nat → Nat → Fl FlModel.exact}
    (hA : Is A r k ea) (hB : Is B k c eb) :
    ∃ p, mul A B = .ok p ∧ ∀ i j, i < r → j < c → ∃ x, p.get i j = .ok x ∧
      x.val = ∑ t ∈ Finset.range k, (ea i t).val * (eb t j).val := by
  obtain ⟨p, hp, _, hb⟩ := mul_rounding hA hB
  refine ⟨p, hp, fun i j hi hj => ?_⟩
  obtain ⟨x, hx, hx'⟩ := hb i j hi hj
  refine ⟨x, hx, ?_⟩
  have hg : FlModel.exact.gam (k + 1) = 0 := by simp [FlModel.gam, FlModel.exact]
  rw [hg, zero_mul] at hx'
  exact sub_eq_zero.mp (abs_nonpos_iff.mp hx')

/-- a wide product `2×3 · 3×4` of constant matrices in an ARBITRARY model: the hypotheses of
`mul_rounding` are satisfiable for non-square shapes, and the bound reads
`|fl(AB)_ij - 3xy| ≤ gam 4 · 3|xy|` -/
example (M : FlModel) (x y : ℝ) :
    ∃ p, mul (Mat.new 2 3 (⟨x⟩ : Fl M)) (Mat.new 3 4 (⟨y⟩ : Fl M)) = .ok p ∧ p.rows = 2 ∧ p.cols = 4 ∧
      ∀ i j, i < 2 → j < 4 → ∃ z, p.get i j = .ok z ∧
        |z.val - 3 * (x * y)| ≤ M.gam 4 * (3 * |x * y|) := by
  obtain ⟨p, hp, hI, hb⟩ := mul_rounding (Is.of_new 2 3 (⟨x⟩ : Fl M)) (Is.of_new 3 4 (⟨y⟩ : Fl M))
  refine ⟨p, hp, hI.rows, hI.cols, fun i j hi hj => ?_⟩
  obtain ⟨z, hz, hz'⟩ := hb i j hi hj
  refine ⟨z, hz, ?_⟩
  simp only [Finset.sum_const, Finset.card_range, nsmul_eq_mul] at hz'
  norm_num at hz'
  rw [abs_mul]
  exact hz'

/-- a model that really rounds (`fl t = (1 + 2⁻⁵³) t`): the bound of `mul_rounding` is ATTAINED for
the `1×1` product `[x]·[1]`: computed `(1+u)² x`, exact `x`, error `gam 2 · |x|`. -/
example (x : ℝ) :
    let M := FlModel.scale (2 ^ (-53 : ℤ)) (by positivity)
    |(dotRC (fun _ _ => (⟨x⟩ : Fl M)) (fun _ _ => (1 : Fl M)) 1 0 0).val
        - ∑ t ∈ Finset.range 1, x * 1|
      = M.gam (1 + 1) * ∑ t ∈ Finset.range 1, |x * 1| := by
  intro M
  have hg := M.gam_nonneg 2
  have hg2 : M.gam 2 = (1 + M.u) ^ 2 - 1 := rfl
  have hv : (dotRC (fun _ _ => (⟨x⟩ : Fl M)) (fun _ _ => (1 : Fl M)) 1 0 0).val
      = (1 + M.u) * (0 + (1 + M.u) * (x * 1)) := by
    simp [dotRC]
    rfl
  rw [hv]
  simp only [Finset.sum_const, Finset.card_range, one_smul, mul_one]
  have : (1 + M.u) * (0 + (1 + M.u) * x) - x = M.gam 2 * x := by rw [hg2]; ring
  rw [this, abs_mul, abs_of_nonneg hg]

/-- the hypotheses `hfabs`, `hfmax` of the norm theorems are satisfied by `flTransc M` (by `rfl`),
for every model: `norm_1` of the constant `2 × 3` matrix `x` is `2|x|` up to `gam 2` -/
example (M : FlModel) (x : ℝ) :
    ∃ v, Mat.norm1 (Mat.new 2 3 (⟨x⟩ : Fl M)) = .ok v ∧
      |v.val - (2 * |x|)| ≤ M.gam 2 * (2 * |x|) := by
  obtain ⟨v, hv, hv'⟩ := norm1_rounding (M := M) (fun _ => rfl) (fun _ _ => rfl)
    (Is.of_new 2 3 (⟨x⟩ : Fl M))
  refine ⟨v, hv, ?_⟩
  have e : exactNorm1 (fun _ _ => (⟨x⟩ : Fl M)) 2 3 = 2 * |x| := by
    have h2 : (0 : ℝ) ≤ 2 * |x| := by positivity
    simp [exactNorm1, max0, Finset.sum_const, h2]
  rwa [e] at hv'

/-- elementwise division: the hypothesis `s ≠ 0` is satisfiable; dividing by an exact zero is the
error `arith` -/
example (M : FlModel) (x : ℝ) :
    (∃ p, sdiv (Mat.new 2 3 (⟨x⟩ : Fl M)) ⟨2⟩ = .ok p ∧ ∃ z, p.get 1 2 = .ok z ∧
        |z.val - x / 2| ≤ M.u * |x / 2|) ∧
    sdiv (Mat.new 2 3 (⟨x⟩ : Fl M)) ⟨0⟩ = .error .arith := by
  constructor
  · obtain ⟨p, hp, _, hb⟩ := sdiv_rounding (Is.of_new 2 3 (⟨x⟩ : Fl M)) ⟨2⟩ (by norm_num)
    exact ⟨p, hp, hb 1 2 (by omega) (by omega)⟩
  · exact sdiv_zero_rejects (Is.of_new 2 3 (⟨x⟩ : Fl M)) (by omega) (by omega) ⟨0⟩ rfl

end Examples

end Ohsl.Props.C03
