/-
  Ohsl.Model.Fmt — the text form of `Mesh1D::output` / `Mesh1D::read`:
  Rust's `{:.prec$}` formatting of an f64 (the exact binary value rounded half-to-even to `prec`
  decimals) and `f64::from_str` (the nearest double of a decimal).  Modelled, not verified.
-/
import Ohsl.Model.Mesh
namespace Ohsl
namespace Fmt

/-- exact value of a finite double as `(negative, num, den)` with `den` a power of two -/
def decode (x : Float) : Bool × Nat × Nat :=
  let b := x.toBits.toNat
  let neg := b / 2 ^ 63 == 1
  let ex := (b / 2 ^ 52) % 2048
  let fr := b % 2 ^ 52
  if ex == 0 then (neg, fr, 2 ^ 1074)
  else
    let m := fr + 2 ^ 52
    if ex ≥ 1075 then (neg, m * 2 ^ (ex - 1075), 1) else (neg, m, 2 ^ (1075 - ex))

/-- round `num/den` to the nearest integer, ties to even -/
def roundHalfEven (num den : Nat) : Nat :=
  let q := num / den
  let r := num % den
  if 2 * r < den then q else if 2 * r > den then q + 1 else if q % 2 == 0 then q else q + 1

/-- `format!("{:.prec$}", x)` for finite `x` -/
def fixed (x : Float) (prec : Nat) : String :=
  if x.isNaN then "NaN"
  else if x.isInf then (if x < 0 then "-inf" else "inf")
  else
    let (neg, num, den) := decode x
    let n := roundHalfEven (num * 10 ^ prec) den
    let ip := n / 10 ^ prec
    let fp := n % 10 ^ prec
    let fs := toString fp
    let frac := String.ofList (List.replicate (prec - fs.length) '0') ++ fs
    (if neg then "-" else "") ++ toString ip ++ (if prec == 0 then "" else "." ++ frac)

/-- nearest double (ties to even) of the non-negative rational `num/den`, `den > 0` -/
def nearest (num den : Nat) : Float :=
  if num == 0 then 0.0
  else
    -- find e with 2^52 ≤ num / (den * 2^e) < 2^53
    let l := num.log2 - den.log2       -- rough binary exponent (Int-like, may be off by one)
    let rec go (fuel : Nat) (e : Int) : Float :=
      match fuel with
      | 0 => 0.0
      | fuel + 1 =>
        let (n', d') := if e ≥ 0 then (num, den * 2 ^ e.toNat) else (num * 2 ^ (-e).toNat, den)
        let q := n' / d'
        if q < 2 ^ 52 then go fuel (e - 1)
        else if q ≥ 2 ^ 53 then go fuel (e + 1)
        else
          let m := roundHalfEven n' d'
          -- m ∈ [2^52, 2^53]; m * 2^e
          Float.scaleB (Float.ofNat m) e
    go 2200 ((l : Int) - 52)

/-- decimal value of a list of digit characters (non-digits are not produced by `fixed`) -/
def digitsVal (cs : List Char) : Nat := cs.foldl (fun acc c => acc * 10 + (c.toNat - '0'.toNat)) 0

/-- `f64::from_str` on the output of `fixed` (optional sign, digits, optional `.` and fraction digits; the
    three non-finite spellings).  Written on character lists so that it can be reasoned about. -/
def parse (s : String) : Float :=
  -- what `fixed` prints for non-finite values is read back as such by `f64::from_str`
  if s == "NaN" then 0.0 / 0.0
  else if s == "inf" then 1.0 / 0.0
  else if s == "-inf" then -1.0 / 0.0
  else
  let cs := s.toList
  let neg := cs.head? == some '-'
  let body := if neg then cs.drop 1 else cs
  let ip := body.takeWhile (· != '.')
  let fp := (body.dropWhile (· != '.')).drop 1
  let v := nearest (digitsVal (ip ++ fp)) (10 ^ fp.length)
  if neg then -v else v

/-- the text `Mesh1D::output(filename, precision)` writes -/
def output (m : Mesh1 Float Float) (prec : Nat) : String :=
  (List.range m.nodes.size).foldl (fun acc i =>
    let node := (m.nodes[i]?.getD 0.0)
    let vars := m.vars[i]?.getD #[]
    let line := (List.range m.nvars).foldl (fun l v => l ++ fixed (vars[v]?.getD 0.0) prec ++ " ") (fixed node prec ++ " ")
    acc ++ line ++ "\n") ""

/-- the text `Mesh2D::output(filename, precision)` writes: for each y-node (outer) and x-node
    (inner) one line `x y v_0 … v_{nvars-1}`, a blank line after each y-node -/
def output2 (m : Mesh2 Float Float) (prec : Nat) : Res String :=
  Mat.forM' 0 m.ny "" (fun acc j => do
    let acc ← Mat.forM' 0 m.nx acc (fun acc i => do
      let x ← aget m.xnodes i
      let y ← aget m.ynodes j
      let row ← aget m.vars (i * m.ny + j)
      let line ← Mat.forM' 0 m.nvars (fixed x prec ++ " " ++ fixed y prec ++ " ") (fun l v => do
        let z ← aget row v
        pure (l ++ fixed z prec ++ " "))
      pure (acc ++ line ++ "\n"))
    pure (acc ++ "\n"))

/-- `Mesh2D::output_var(filename, var, precision)`: one variable per line -/
def outputVar2 (m : Mesh2 Float Float) (var prec : Nat) : Res String :=
  Mat.forM' 0 m.ny "" (fun acc j => do
    let acc ← Mat.forM' 0 m.nx acc (fun acc i => do
      let x ← aget m.xnodes i
      let y ← aget m.ynodes j
      let row ← aget m.vars (i * m.ny + j)
      let z ← aget row var
      pure (acc ++ fixed x prec ++ " " ++ fixed y prec ++ " " ++ fixed z prec ++ " " ++ "\n"))
    pure (acc ++ "\n"))

/-- `Mesh1D::read(filename)` on a mesh with `nvars` variables -/
def read (m : Mesh1 Float Float) (text : String) : Mesh1 Float Float :=
  let toks := (text.split (fun c => c == ' ' || c == '\n' || c == '\t')).toList.map (·.toString) |>.filter (· ≠ "")
  let k := m.nvars + 1
  let nodes := ((List.range toks.length).filter (· % k == 0)).map (fun i => parse (toks[i]?.getD "0"))
  let nn := nodes.length
  let vars0 : Array (Array Float) :=
    if nn ≤ m.vars.size then m.vars.extract 0 nn else m.vars ++ Array.replicate (nn - m.vars.size) (Array.replicate m.nvars 0.0)
  let vars := (List.range toks.length).foldl (fun (vs : Array (Array Float)) i =>
    if i % k == 0 then vs
    else
      let node := i / k
      let var := i % k - 1
      vs.modify node (fun row => row.setIfInBounds var (parse (toks[i]?.getD "0")))) vars0
  { m with nodes := nodes.toArray, vars := vars }

end Fmt
end Ohsl
