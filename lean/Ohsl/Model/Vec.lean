/-
  Ohsl.Model.Vec — model of `ohsl::vector::Vector<T>` (src/vector/*.rs) over `Array K`.
  `.error e` models a Rust panic of class `e`; accumulation orders follow the source.
-/
import Ohsl.Model.Cx
namespace Ohsl

/-- checked read: a Rust slice index out of bounds is a panic of class `range` -/
def aget {α} (a : Array α) (i : Nat) : Res α :=
  match a[i]? with
  | some v => .ok v
  | none => .error .range

/-- checked write -/
def aset {α} (a : Array α) (i : Nat) (v : α) : Res (Array α) :=
  if i < a.size then .ok (a.setIfInBounds i v) else .error .range

/-- `a - b` on `usize` in the dev profile: underflow is an arithmetic panic -/
def usub (a b : Nat) : Res Nat := if b ≤ a then .ok (a - b) else .error .arith

namespace Vec
variable {K : Type}

section Generic
variable [Add K] [Sub K] [Mul K] [Neg K] [Zero K] [One K] [BEq K] [ScalarExt K]

/-- `&a + &b` (and the consuming forms, which delegate to it) -/
def add (a b : Array K) : Res (Array K) :=
  if a.size ≠ b.size then .error .size else .ok (Array.zipWith (· + ·) a b)
def sub (a b : Array K) : Res (Array K) :=
  if a.size ≠ b.size then .error .size else .ok (Array.zipWith (· - ·) a b)
def neg (a : Array K) : Array K := a.map (fun x => -x)
/-- `vector * scalar` : `vec[i] * scalar` -/
def smul (a : Array K) (s : K) : Array K := a.map (· * s)
/-- `vector / scalar` -/
def sdiv (a : Array K) (s : K) : Res (Array K) := a.mapM (fun x => divM x s)
/-- `+= Vector`, `-= Vector` -/
def addAssign (a b : Array K) : Res (Array K) := add a b
def subAssign (a b : Array K) : Res (Array K) := sub a b
/-- `+= T`, `-= T`, `*= T`, `/= T` -/
def addS (a : Array K) (s : K) : Array K := a.map (· + s)
def subS (a : Array K) (s : K) : Array K := a.map (· - s)
def mulS (a : Array K) (s : K) : Array K := a.map (· * s)
def divS (a : Array K) (s : K) : Res (Array K) := a.mapM (fun x => divM x s)

/-- `dot`: `result = 0; result += v[i] * w[i]` in index order -/
def dot (a b : Array K) : Res K :=
  if a.size ≠ b.size then .error .size
  else .ok ((Array.zipWith (· * ·) a b).foldl (· + ·) 0)

/-- `sum_slice(start, end)` (inclusive range, three guards in the source's order) -/
def sumSlice (a : Array K) (s e : Nat) : Res K :=
  if s > e then .error .range
  else if a.size ≤ s then .error .range
  else if a.size ≤ e then .error .range
  else .ok ((a.extract s (e + 1)).foldl (· + ·) 0)

/-- `sum()` = `sum_slice(0, size - 1)`; the empty vector underflows `size - 1` -/
def sum (a : Array K) : Res K := do
  let e ← usub a.size 1
  sumSlice a 0 e

/-- `product_slice(start, end)`: starts from `vec[start]` -/
def productSlice (a : Array K) (s e : Nat) : Res K :=
  if s > e then .error .range
  else if a.size ≤ s then .error .range
  else if a.size ≤ e then .error .range
  else do
    let first ← aget a s
    pure ((a.extract (s + 1) (e + 1)).foldl (· * ·) first)

def product (a : Array K) : Res K := do
  let e ← usub a.size 1
  productSlice a 0 e

/-- `abs()` : elementwise `Signed::abs` -/
def abs (a : Array K) : Array K := a.map ScalarExt.mag
/-- `norm_1` -/
def norm1 (a : Array K) : K := a.foldl (fun acc x => acc + ScalarExt.mag x) 0

/-- `find(value)`: first index holding `value`, else `size - 1` (underflow on empty) -/
def find (a : Array K) (v : K) : Res Nat :=
  match a.findIdx? (· == v) with
  | some i => .ok i
  | none => usub a.size 1

/- editing operations (delegating to `Vec`) -/
def push (a : Array K) (x : K) : Array K := a.push x
def pushFront (a : Array K) (x : K) : Array K := #[x] ++ a
def insert (a : Array K) (pos : Nat) (x : K) : Res (Array K) :=
  if pos ≤ a.size then .ok (a.extract 0 pos ++ #[x] ++ a.extract pos a.size) else .error .range
def pop (a : Array K) : Res (K × Array K) :=
  match a.back? with
  | some x => .ok (x, a.pop)
  | none => .error .unwrap
def swap (a : Array K) (i j : Nat) : Res (Array K) := do
  let x ← aget a i
  let y ← aget a j
  let a ← aset a i y
  aset a j x
/-- `resize(n)` pads with `T::default()` (zero for every scalar used here) -/
def resize (a : Array K) (n : Nat) : Array K :=
  if n ≤ a.size then a.extract 0 n else a ++ Array.replicate (n - a.size) 0
def assign (a : Array K) (x : K) : Array K := a.map (fun _ => x)
def clear (_ : Array K) : Array K := #[]

/-- insertion into a sorted list w.r.t. the scalar's `<` -/
def insSorted (x : K) : List K → List K
  | [] => [x]
  | y :: ys => if ScalarExt.lt y x then y :: insSorted x ys else x :: y :: ys
/-- `sort()` (`sort_unstable` on a total order: the result is the sorted permutation) -/
def sort (a : Array K) : Array K := (a.toList.foldr insSorted []).toArray

end Generic

section Complex
variable [Add K] [Sub K] [Mul K] [Neg K] [Zero K] [One K] [BEq K] [ScalarExt K]
/-- `Vector<Complex<T>>::conj`, `::real` -/
def conj (a : Array (Cx K)) : Array (Cx K) := a.map Cx.conj
def real (a : Array (Cx K)) : Array K := a.map (·.re)
end Complex

section F64
variable [Add K] [Sub K] [Mul K] [Neg K] [Zero K] [One K] [BEq K] [ScalarExt K] [Transc K]

/-- `f64 * Vector<f64>` : `scalar * vec[i]` -/
def lsmul (s : K) (a : Array K) : Array K := a.map (s * ·)

/-- `linspace(a, b, size)` : `h = (b - a) / (size as f64 - 1.0)`, `vec[i] = a + h * i` -/
def linspace (a b : K) (n : Nat) : Res (Array K) := do
  let h ← divM (b - a) (Transc.ofNat n - 1)
  pure (Array.ofFn (n := n) (fun i => a + h * Transc.ofNat i.val))

/-- `powspace(a, b, size, p)` -/
def powspace (a b : K) (n : Nat) (p : K) : Res (Array K) :=
  (Array.ofFn (n := n) (fun i => i.val)).mapM (fun i => do
    let t ← divM (Transc.ofNat i) (Transc.ofNat n - 1)
    pure (a + (b - a) * Transc.powf t p))

def two : K := 1 + 1

/-- `norm_2` -/
def norm2 (a : Array K) : K :=
  Transc.sqrt (a.foldl (fun acc x => acc + Transc.powf (Transc.fabs x) (1 + 1)) 0)
/-- `norm_p` -/
def normP (a : Array K) (p : K) : Res K := do
  let s := a.foldl (fun acc x => acc + Transc.powf (Transc.fabs x) p) 0
  let ip ← divM 1 p
  pure (Transc.powf s ip)
/-- `norm_inf` of a vector whose element magnitudes are given by `absf` (f64: `fabs`, Cmplx: modulus) -/
def normInfBy {α} (absf : α → K) (a : Array α) : Res K :=
  match a[0]? with
  | none => .error .range
  | some x0 =>
    .ok ((a.extract 1 a.size).foldl (fun r x => if ScalarExt.lt r (absf x) || !(absf x == absf x) then absf x else r) (absf x0))
def normInf (a : Array K) : Res K := normInfBy Transc.fabs a
def normInfC (a : Array (Cx K)) : Res K := normInfBy Cx.abs a

end F64
end Vec
end Ohsl
