/-
  Ohsl.Model.Roots — model of `Polynomial<Cmplx>::{roots, poly_solve, quadratic_solve,
  cubic_solve, laguer}` and `Polynomial<f64>::roots` (src/polynomial/mod.rs:190-347).
-/
import Ohsl.Model.CxFun
import Ohsl.Model.Vec
namespace Ohsl
namespace Roots
variable {K : Type}
variable [Add K] [Sub K] [Mul K] [Neg K] [Div K] [Zero K] [One K] [BEq K] [ScalarExt K] [Transc K]
variable [OfScientific K]
open Transc Cx

/-- `n as f64` as a complex scalar multiplier: `n. * z` is `z * n` componentwise -/
def nmul (n : Nat) (z : Cx K) : Cx K := mulR z (ofNat n)

/-- `quadratic_solve(a, b, c)`; when `q == 0` (only for `b = c = 0`) the double root `q/a`
    is returned twice -/
def quadraticSolve (a b c : Cx K) : Array (Cx K) :=
  let disc := b * b - nmul 4 a * c
  let s := csqrt disc
  let sgn0 := (conj b * s).re
  let sgn : K := if le 0 sgn0 then 1 else -1
  let q := mulR (b + mulR s sgn) (-half)
  let r0 := divT q a
  let r1 := if q == 0 then r0 else divT c q
  #[r0, r1]

/-- `cubic_solve(a, b, c, d)` : Cardano -/
def cubicSolve (a b c d : Cx K) : Array (Cx K) :=
  let a2 := a * a
  let b2 := b * b
  let c2 := c * c
  let d2 := d * d
  let dis := nmul 18 a * b * c * d - nmul 4 b * b2 * d + b2 * c2 - nmul 4 a * c2 * c - nmul 27 a2 * d2
  let d0 := b2 - nmul 3 a * c
  let d1 := nmul 2 b2 * b - nmul 9 a * b * c + nmul 27 a2 * d
  if d0 == 0 && d1 == 0 then
    let r := divT (-b) (nmul 3 a)
    #[r, r, r]
  else
    let sq := csqrt (mulR a (-(ofNat 27 : K)) * a * dis)
    -- the sign that avoids cancellation: |d1 ± sq|² = |d1|² + |sq|² ± 2 Re(conj d1 · sq)
    let base := divRT (if ScalarExt.lt (conj d1 * sq).re 0 then d1 - sq else d1 + sq) (ofNat 2)
    -- (fix D12) `base` can vanish in floating point although `d0`, `d1` did not both: the roots then
    -- coincide to working precision; the cube root of 0 and `d0 / k` would give NaN
    if base == 0 then
      let r := divT (-b) (nmul 3 a)
      #[r, r, r]
    else
      let k := cpow base ⟨ofNat 1 / ofNat 3, 0⟩
      let r0 := divT (-(b + k + divT d0 k)) (nmul 3 a)
      let u : Cx K := ⟨-half, sqrt (ofNat 3) / ofNat 2⟩
      let r1 := divT (-(b + u * k + divT d0 (u * k))) (nmul 3 a)
      let u2 := u * u
      let r2 := divT (-(b + u2 * k + divT d0 (u2 * k))) (nmul 3 a)
      #[r0, r1, r2]

/-- `f64::is_finite` : `x - x == 0` fails exactly for ±inf and NaN -/
def isFinite (x : K) : Bool := (x - x) == 0

def frac : Array K := #[0.0, 0.5, 0.25, 0.75, 0.13, 0.38, 0.62, 0.88, 1.0]

/-- evaluation part of one Laguerre iteration: returns (b, d, f, err) -/
def laguerEval (a : Array (Cx K)) (m : Nat) (x : Cx K) : Cx K × Cx K × Cx K × K :=
  let b0 := a[m]?.getD 0
  let abx := Cx.abs x
  (List.range m).reverse.foldl (fun (st : Cx K × Cx K × Cx K × K) j =>
    let (b, d, f, err) := st
    let f := x * f + d
    let d := x * d + b
    let b := x * b + (a[j]?.getD 0)
    (b, d, f, Cx.abs b + abx * err)) (b0, 0, 0, Cx.abs b0)

/-- one iteration of `laguer`; `none` = `return` -/
def laguerStep (a : Array (Cx K)) (m : Nat) (iter : Nat) (x : Cx K) : Option (Cx K) :=
  let (b, d, f, err) := laguerEval a m x
  let abx := Cx.abs x
  let err := err * eps
  if le (Cx.abs b) err then none
  else
    let g := divT d b
    let g2 := g * g
    let h := g2 - nmul 2 (divT f b)
    let sq := csqrt (mulR (mulR h (ofNat m) - g2) (ofNat (m - 1)))
    let gp := g + sq
    let gm := g - sq
    let abp := Cx.abs gp
    let abm := Cx.abs gm
    -- |p'/p| so large that its square overflowed (a root lies within m |p/p'| of x): stop with the current estimate
    if !(isFinite abp && isFinite abm) then none else
    let gp := if ScalarExt.lt abp abm then gm else gp
    let dx := if ScalarExt.lt 0 (fmax abp abm) then divT ⟨ofNat m, 0⟩ gp
              else polar (1 + abx) (ofNat iter)
    let x1 := x - dx
    if x == x1 then none
    -- a non-finite step (|p(x)|² underflows next to a root at zero) stops with the current estimate
    else if !(isFinite x1.re && isFinite x1.im) then none
    else if iter % 10 != 0 then some x1
    else some (x - mulR dx ((frac (K := K))[iter / 10]?.getD 0))

/-- `laguer(a, x, its)` : `for iter in 1..MAXIT` (79 iterations at most); returns the final `x` -/
def laguerLoop (a : Array (Cx K)) (m : Nat) : Nat → Nat → Cx K → Cx K
  | 0, _, x => x
  | fuel + 1, iter, x =>
    match laguerStep a m iter x with
    | none => x
    | some x' => laguerLoop a m fuel (iter + 1) x'

def laguer (a : Array (Cx K)) (x : Cx K) : Cx K := laguerLoop a (a.size - 1) 79 1 x

/-- deflation: `b = ad[j+1]; for jj in (0..j+1).rev() { c = ad[jj]; ad[jj] = b; b = x*b + c }` -/
def deflate (ad : Array (Cx K)) (j : Nat) (x : Cx K) : Array (Cx K) :=
  let b0 := ad[j + 1]?.getD 0
  ((List.range (j + 1)).reverse.foldl (fun (st : Array (Cx K) × Cx K) jj =>
    let (ad, b) := st
    let c := ad[jj]?.getD 0
    (ad.setIfInBounds jj b, x * b + c)) (ad, b0)).1

/-- `poly_solve(coeffs, refine)` -/
def polySolve (coeffs : Array (Cx K)) (refine : Bool) : Res (Array (Cx K)) := do
  let degree ← usub coeffs.size 1
  if degree = 0 then .error .range
  else
    let c (i : Nat) : Cx K := coeffs[i]?.getD 0
    let roots : Array (Cx K) :=
      if degree = 1 then #[divT (-(c 0)) (c 1)]
      else if degree = 2 then quadraticSolve (c 2) (c 1) (c 0)
      else if degree = 3 then cubicSolve (c 3) (c 2) (c 1) (c 0)
      else
        ((List.range degree).reverse.foldl (fun (st : Array (Cx K) × Array (Cx K)) j =>
          let (ad, roots) := st
          let adv := ad.extract 0 (j + 2)
          let x := laguer adv 0
          let x : Cx K := if le (fabs x.im) ((1 + 1) * eps * fabs x.re) then ⟨x.re, 0⟩ else x
          (deflate ad j x, roots.setIfInBounds j x)) (coeffs, Array.replicate degree (0 : Cx K))).2
    let roots := if refine then roots.map (fun r => laguer coeffs r) else roots
    pure roots

/-- `Polynomial<f64>::roots` : embed the coefficients -/
def rootsReal (coeffs : Array K) (refine : Bool) : Res (Array (Cx K)) :=
  polySolve (coeffs.map (fun x => (⟨x, 0⟩ : Cx K))) refine

end Roots
end Ohsl
