/-
  Ohsl.Model.Dot — model of the threaded dot product `Vector<f64>::dot_f64`
  (src/vector/vec_f64.rs:73-108): the index range is cut into `w` chunks
  (`chunk = len / w`, the last worker takes the remainder), each worker sums its slice from 0.0
  in index order, and the partial sums are added in spawn order.
-/
import Ohsl.Model.Vec
namespace Ohsl
namespace Dot

/-- `(start, end)` of worker `i` of `w` -/
def chunk (len w i : Nat) : Nat × Nat :=
  let c := len / w
  (i * c, if i = w - 1 then len else (i + 1) * c)

def chunks (len w : Nat) : List (Nat × Nat) := (List.range w).map (chunk len w)

variable {K : Type} [Add K] [Mul K] [Zero K]

/-- partial sum of one worker -/
def partialSum (a b : Array K) (se : Nat × Nat) : K :=
  (Array.zipWith (· * ·) (a.extract se.1 se.2) (b.extract se.1 se.2)).foldl (· + ·) 0

/-- `dot_f64` with `w = num_cpus::get()` workers (size mismatch is a panic) -/
def dotThreaded (w : Nat) (a b : Array K) : Res K :=
  if a.size ≠ b.size then .error .size
  else if w = 0 then .error .arith
  else .ok (((chunks a.size w).map (partialSum a b)).foldl (· + ·) 0)

end Dot
end Ohsl
