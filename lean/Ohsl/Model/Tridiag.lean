/-
  Ohsl.Model.Tridiag — model of `ohsl::tridiagonal::Tridiagonal<T>` (src/tridiagonal.rs):
  three diagonals `sub` (n-1), `main` (n), `sup` (n-1).
-/
import Ohsl.Model.Mat
namespace Ohsl

structure Tri (K : Type) where
  sub : Array K
  main : Array K
  sup : Array K
  n : Nat
  deriving Repr, Inhabited

namespace Tri
variable {K : Type}
variable [Add K] [Sub K] [Mul K] [Neg K] [Zero K] [One K] [BEq K] [ScalarExt K]

/-- `with_vecs` / `with_vectors` : `n - 1` underflows for an empty main diagonal -/
def withVecs (sub main sup : Array K) : Res (Tri K) := do
  let n1 ← usub main.size 1
  if sub.size ≠ n1 ∨ sup.size ≠ n1 then .error .size
  else pure ⟨sub, main, sup, main.size⟩

/-- `new(n)` -/
def new (n : Nat) : Res (Tri K) := do
  let n1 ← usub n 1
  pure ⟨Array.replicate n1 0, Array.replicate n 0, Array.replicate n1 0, n⟩

def withElements (a b c : K) (n : Nat) : Res (Tri K) := do
  let n1 ← usub n 1
  pure ⟨Array.replicate n1 a, Array.replicate n b, Array.replicate n1 c, n⟩

/-- index operator `[(i, j)]` -/
def get (t : Tri K) (i j : Nat) : Res K :=
  if i ≥ t.n ∨ j ≥ t.n then .error .range
  else if i = j then aget t.main i
  else if i = j + 1 then aget t.sub j
  else if i + 1 = j then aget t.sup i
  else .error .range

/-- index_mut then assignment -/
def set (t : Tri K) (i j : Nat) (v : K) : Res (Tri K) :=
  if i ≥ t.n ∨ j ≥ t.n then .error .range
  else if i = j then do let a ← aset t.main i v; pure { t with main := a }
  else if i = j + 1 then do let a ← aset t.sub j v; pure { t with sub := a }
  else if i + 1 = j then do let a ← aset t.sup i v; pure { t with sup := a }
  else .error .range

def transpose (t : Tri K) : Tri K := { t with sub := t.sup, sup := t.sub }

/-- `det()` : three-term recurrence -/
def det (t : Tri K) : Res K := do
  let m0 ← aget t.main 0
  let f0 : K := 1
  let f1 := m0 * f0
  if t.n + 1 < 2 then .error .range   -- f[1] out of bounds when n = 0 (unreachable: main[0] fails first)
  else do
    let (_, fj) ← Mat.forM' 2 (t.n + 1) (f0, f1) (fun (fjm2, fjm1) j => do
      let mj ← aget t.main (j - 1)
      let sb ← aget t.sub (j - 2)
      let sp ← aget t.sup (j - 2)
      pure (fjm1, mj * fjm1 - sb * sp * fjm2))
    pure fj

/-- `convert()` : dense matrix -/
def convert (t : Tri K) : Res (Mat K) :=
  let dense := Mat.new t.n t.n (0 : K)
  if t.n = 0 then .error .range
  else if t.n = 1 then do
    let m0 ← aget t.main 0
    dense.set 0 0 m0
  else do
    let m0 ← aget t.main 0
    let d ← dense.set 0 0 m0
    let s0 ← aget t.sup 0
    let d ← d.set 0 1 s0
    let d ← Mat.forM' 1 (t.n - 1) d (fun d i => do
      let a ← aget t.sub (i - 1)
      let d ← d.set i (i - 1) a
      let b ← aget t.main i
      let d ← d.set i i b
      let c ← aget t.sup i
      d.set i (i + 1) c)
    let a ← aget t.sub (t.n - 2)
    let d ← d.set (t.n - 1) (t.n - 2) a
    let b ← aget t.main (t.n - 1)
    d.set (t.n - 1) (t.n - 1) b

/-- forward sweep state of `solve` -/
structure Sweep (K : Type) where
  beta : K
  gamma : Array K
  u : Array K

/-- `solve(&r)` : Thomas algorithm with explicit zero-pivot refusals -/
def solve (t : Tri K) (r : Array K) : Res (Array K) :=
  if t.n ≠ r.size then .error .size
  else do
    let u : Array K := Array.replicate t.n 0
    let aT : Array K := #[(0 : K)] ++ t.sub       -- a_temp.push_front(0)
    let cT : Array K := t.sup.push 0              -- c_temp.push(0)
    let beta ← aget t.main 0
    let gamma : Array K := Array.replicate t.n 0
    if beta == 0 then .error .zeroPivot
    else do
      let r0 ← aget r 0
      let q ← divM r0 beta
      let u ← aset u 0 q
      let s ← Mat.forM' 1 t.n (⟨beta, gamma, u⟩ : Sweep K) (fun s j => do
        let c ← aget cT (j - 1)
        let g ← divM c s.beta
        let gamma ← aset s.gamma j g
        let mj ← aget t.main j
        let aj ← aget aT j
        let beta := mj - aj * g
        if beta == 0 then .error .zeroPivot
        else do
          let rj ← aget r j
          let ujm1 ← aget s.u (j - 1)
          let q ← divM (rj - aj * ujm1) beta
          let u ← aset s.u j q
          pure ⟨beta, gamma, u⟩)
      let n1 ← usub t.n 1
      (List.range n1).reverse.foldlM (fun u j => do
        let g ← aget s.gamma (j + 1)
        let uj1 ← aget u (j + 1)
        let uj ← aget u j
        aset u j (uj - g * uj1)) s.u

def neg (t : Tri K) : Tri K := ⟨Vec.neg t.sub, Vec.neg t.main, Vec.neg t.sup, t.n⟩

def add (a b : Tri K) : Res (Tri K) :=
  if a.n ≠ b.n then .error .size
  else do
    let s ← Vec.add a.sub b.sub
    let m ← Vec.add a.main b.main
    let p ← Vec.add a.sup b.sup
    pure ⟨s, m, p, a.n⟩

def sub' (a b : Tri K) : Res (Tri K) :=
  if a.n ≠ b.n then .error .size
  else do
    let s ← Vec.sub a.sub b.sub
    let m ← Vec.sub a.main b.main
    let p ← Vec.sub a.sup b.sup
    pure ⟨s, m, p, a.n⟩

def smul (t : Tri K) (s : K) : Tri K := ⟨Vec.smul t.sub s, Vec.smul t.main s, Vec.smul t.sup s, t.n⟩
def sdiv (t : Tri K) (s : K) : Res (Tri K) := do
  let a ← Vec.sdiv t.sub s
  let b ← Vec.sdiv t.main s
  let c ← Vec.sdiv t.sup s
  pure ⟨a, b, c, t.n⟩
def addS (t : Tri K) (s : K) : Tri K := ⟨Vec.addS t.sub s, Vec.addS t.main s, Vec.addS t.sup s, t.n⟩
def subS (t : Tri K) (s : K) : Tri K := ⟨Vec.subS t.sub s, Vec.subS t.main s, Vec.subS t.sup s, t.n⟩
/-- `f64 * Tridiagonal<f64>` -/
def lsmul (s : K) (t : Tri K) : Tri K :=
  ⟨t.sub.map (s * ·), t.main.map (s * ·), t.sup.map (s * ·), t.n⟩

/-- `&T * &v` (first and last rows separate; `n = 1` is the diagonal entry alone) -/
def mulVec (t : Tri K) (v : Array K) : Res (Array K) :=
  if t.n ≠ v.size then .error .size
  else do
    let res : Array K := Array.replicate t.n 0
    if t.n = 1 then do
      let m0 ← aget t.main 0
      let v0 ← aget v 0
      aset res 0 (m0 * v0)
    else do
      let m0 ← aget t.main 0
      let v0 ← aget v 0
      let s0 ← aget t.sup 0
      let v1 ← aget v 1
      let res ← aset res 0 (m0 * v0 + s0 * v1)
      let n1 ← usub t.n 1
      let res ← Mat.forM' 1 n1 res (fun res i => do
        let a ← aget t.sub (i - 1)
        let x ← aget v (i - 1)
        let b ← aget t.main i
        let y ← aget v i
        let c ← aget t.sup i
        let z ← aget v (i + 1)
        aset res i (a * x + b * y + c * z))
      let a ← aget t.sub (t.n - 2)
      let x ← aget v (t.n - 2)
      let b ← aget t.main (t.n - 1)
      let y ← aget v (t.n - 1)
      aset res (t.n - 1) (a * x + b * y)

end Tri
end Ohsl
