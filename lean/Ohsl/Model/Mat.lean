/-
  Ohsl.Model.Mat — model of `ohsl::matrix::Matrix<T>` (src/matrix/{mod,operations,arithmetic,
  functions}.rs): a row-major buffer with `rows`, `cols`; entry (i, j) lives at `i*cols + j`.
  The raw index operator is modelled as the code does it: only the flat offset is checked.
-/
import Ohsl.Model.Vec
namespace Ohsl

structure Mat (K : Type) where
  data : Array K
  rows : Nat
  cols : Nat
  deriving Repr, Inhabited

namespace Mat
variable {K : Type}

/-- `len == rows * cols` -/
def WF (m : Mat K) : Prop := m.data.size = m.rows * m.cols

/-- raw `self[(i, j)]` : slice index `i*cols + j` -/
def get (m : Mat K) (i j : Nat) : Res K := aget m.data (i * m.cols + j)
/-- raw `self[(i, j)] = v` -/
def set (m : Mat K) (i j : Nat) (v : K) : Res (Mat K) := do
  let d ← aset m.data (i * m.cols + j) v
  pure { m with data := d }

/-- `Matrix::new(rows, cols, elem)` -/
def new (r c : Nat) (x : K) : Mat K := ⟨Array.replicate (r * c) x, r, c⟩
def empty : Mat K := ⟨#[], 0, 0⟩
def clear (_ : Mat K) : Mat K := empty
def numel (m : Mat K) : Nat := m.cols * m.rows

/-- sequentially apply `f` for `i = lo, …, hi-1` (a Rust `for i in lo..hi` mutating one value) -/
def forM' {σ} (lo hi : Nat) (s : σ) (f : σ → Nat → Res σ) : Res σ :=
  (List.range' lo (hi - lo)).foldlM f s

section Generic
variable [Add K] [Sub K] [Mul K] [Neg K] [Zero K] [One K] [BEq K] [ScalarExt K]

def getRow (m : Mat K) (row : Nat) : Res (Array K) :=
  if m.rows ≤ row then .error .range
  else (List.range m.cols).toArray.mapM (fun j => aget m.data (row * m.cols + j))

def getCol (m : Mat K) (col : Nat) : Res (Array K) :=
  if m.cols ≤ col then .error .range
  else (List.range m.rows).toArray.mapM (fun i => aget m.data (i * m.cols + col))

def setRow (m : Mat K) (row : Nat) (v : Array K) : Res (Mat K) :=
  if v.size ≠ m.cols then .error .size
  else if m.rows ≤ row then .error .range
  else forM' 0 m.cols m (fun m j => do
    let x ← aget v j
    let d ← aset m.data (row * m.cols + j) x
    pure { m with data := d })

/-- `set_col` — the range check compares the column with the number of columns -/
def setCol (m : Mat K) (col : Nat) (v : Array K) : Res (Mat K) :=
  if v.size ≠ m.rows then .error .size
  else if m.cols ≤ col then .error .range
  else forM' 0 m.rows m (fun m i => do
    let x ← aget v i
    m.set i col x)

def deleteRow (m : Mat K) (row : Nat) : Res (Mat K) :=
  if m.rows ≤ row then .error .range
  else if (row + 1) * m.cols > m.data.size then .error .range
  else .ok ⟨m.data.extract 0 (row * m.cols) ++ m.data.extract ((row + 1) * m.cols) m.data.size,
            m.rows - 1, m.cols⟩

/-- `multiply(&vec)` : row dot products -/
def mulVec (m : Mat K) (v : Array K) : Res (Array K) :=
  if v.size ≠ m.cols then .error .size
  else (List.range m.rows).toArray.mapM (fun r => do
    let row ← getRow m r
    Vec.dot row v)

def eye (n : Nat) : Res (Mat K) :=
  forM' 0 n (new n n (0 : K)) (fun m i => m.set i i 1)

/-- `resize(n_rows, n_cols)`: copy the overlapping block into a fresh zero matrix -/
def resize (m : Mat K) (nr nc : Nat) : Res (Mat K) :=
  forM' 0 nr (new nr nc (0 : K)) (fun acc i =>
    forM' 0 nc acc (fun acc j =>
      if i < m.rows ∧ j < m.cols then do
        let x ← m.get i j
        acc.set i j x
      else pure acc))

/-- `swap_elem` (raw indices) -/
def swapElem (m : Mat K) (r1 c1 r2 c2 : Nat) : Res (Mat K) := do
  let temp ← m.get r1 c1
  let other ← m.get r2 c2
  let m ← m.set r2 c2 temp
  m.set r1 c1 other

def swapRows (m : Mat K) (r1 r2 : Nat) : Res (Mat K) :=
  if m.rows ≤ r1 ∨ m.rows ≤ r2 then .error .range
  else forM' 0 m.cols m (fun m j => swapElem m r1 j r2 j)

/-- `transpose_in_place`: pairwise swap when square, column-major rebuild otherwise -/
def transposeInPlace (m : Mat K) : Res (Mat K) :=
  if m.rows = m.cols then
    forM' 0 m.rows m (fun m i =>
      forM' (i + 1) m.cols m (fun m j => do
        let temp ← m.get i j
        let other ← m.get j i
        let m ← m.set j i temp
        m.set i j other))
  else do
    let d ← forM' 0 m.cols (#[] : Array K) (fun acc j =>
      forM' 0 m.rows acc (fun acc i => do
        let x ← m.get i j
        pure (acc.push x)))
    pure ⟨d, m.cols, m.rows⟩

def transpose (m : Mat K) : Res (Mat K) := transposeInPlace m

def fill (m : Mat K) (x : K) : Res (Mat K) :=
  forM' 0 m.rows m (fun m i => forM' 0 m.cols m (fun m j => m.set i j x))

def fillDiag (m : Mat K) (x : K) : Res (Mat K) :=
  let n := if m.cols < m.rows then m.cols else m.rows
  forM' 0 n m (fun m i => m.set i i x)

/-- `fill_band(offset, elem)`; `offset` is an `isize` -/
def fillBand (m : Mat K) (offset : Int) (x : K) : Res (Mat K) :=
  forM' 0 m.rows m (fun m row =>
    let i : Int := (row : Int) + offset
    if 0 ≤ i ∧ i.toNat < m.cols then m.set row i.toNat x else pure m)

def fillTridiag (m : Mat K) (lower diag upper : K) : Res (Mat K) := do
  let m ← fillBand m (-1) lower
  let m ← fillDiag m diag
  fillBand m 1 upper

def fillRow (m : Mat K) (row : Nat) (x : K) : Res (Mat K) :=
  if m.rows ≤ row then .error .range
  else forM' 0 m.cols m (fun m j => m.set row j x)

def fillCol (m : Mat K) (col : Nat) (x : K) : Res (Mat K) :=
  if m.cols ≤ col then .error .range
  else forM' 0 m.rows m (fun m i => m.set i col x)

/- arithmetic -/

/-- result entries computed by raw indexing over `rows × cols` of the left operand -/
def map2 (f : K → K → K) (a b : Mat K) : Res (Mat K) :=
  forM' 0 a.rows (new a.rows a.cols (0 : K)) (fun acc i =>
    forM' 0 a.cols acc (fun acc j => do
      let x ← a.get i j
      let y ← b.get i j
      acc.set i j (f x y)))

def mapM1 (f : K → Res K) (a : Mat K) : Res (Mat K) :=
  forM' 0 a.rows (new a.rows a.cols (0 : K)) (fun acc i =>
    forM' 0 a.cols acc (fun acc j => do
      let x ← a.get i j
      let y ← f x
      acc.set i j y))

def neg (a : Mat K) : Res (Mat K) := mapM1 (fun x => pure (-x)) a

def add (a b : Mat K) : Res (Mat K) :=
  if a.rows ≠ b.rows then .error .size
  else if a.cols ≠ b.cols then .error .size
  else map2 (· + ·) a b

def sub (a b : Mat K) : Res (Mat K) :=
  if a.rows ≠ b.rows then .error .size
  else if a.cols ≠ b.cols then .error .size
  else map2 (· - ·) a b

def smul (a : Mat K) (s : K) : Res (Mat K) := mapM1 (fun x => pure (x * s)) a
def sdiv (a : Mat K) (s : K) : Res (Mat K) := mapM1 (fun x => divM x s) a
def addS (a : Mat K) (s : K) : Res (Mat K) := mapM1 (fun x => pure (x + s)) a
def subS (a : Mat K) (s : K) : Res (Mat K) := mapM1 (fun x => pure (x - s)) a

/-- `&a * &b` : column by column, `result.set_col(j, a.multiply(b.get_col(j)))` -/
def mul (a b : Mat K) : Res (Mat K) :=
  if a.cols ≠ b.rows then .error .size
  else forM' 0 b.cols (new a.rows b.cols (0 : K)) (fun acc col => do
    let c ← getCol b col
    let v ← mulVec a c
    setCol acc col v)

end Generic

section F64
variable [Add K] [Sub K] [Mul K] [Neg K] [Zero K] [One K] [BEq K] [ScalarExt K] [Transc K]

/-- `norm_1` : max absolute column sum -/
def norm1 (m : Mat K) : Res K :=
  forM' 0 m.cols (0 : K) (fun result j => do
    let s ← forM' 0 m.rows (0 : K) (fun s i => do
      let x ← m.get i j
      pure (s + Transc.fabs x))
    pure (Transc.fmax result s))

/-- `norm_inf` : max absolute row sum -/
def normInf (m : Mat K) : Res K :=
  forM' 0 m.rows (0 : K) (fun result i => do
    let s ← forM' 0 m.cols (0 : K) (fun s j => do
      let x ← m.get i j
      pure (s + Transc.fabs x))
    pure (Transc.fmax result s))

/-- `norm_p` (entrywise) -/
def normP (m : Mat K) (p : K) : Res K := do
  let s ← forM' 0 m.rows (0 : K) (fun s i =>
    forM' 0 m.cols s (fun s j => do
      let x ← m.get i j
      pure (s + Transc.powf (Transc.fabs x) p)))
  let ip ← divM 1 p
  pure (Transc.powf s ip)

def normFrob (m : Mat K) : Res K := normP m (1 + 1)

def normMax (m : Mat K) : Res K :=
  forM' 0 m.rows (0 : K) (fun r i =>
    forM' 0 m.cols r (fun r j => do
      let x ← m.get i j
      pure (Transc.fmax r (Transc.fabs x))))

/-- `f64 * Matrix<f64>` : `matrix[(i,j)] * scalar` -/
def lsmul (s : K) (a : Mat K) : Res (Mat K) := mapM1 (fun x => pure (x * s)) a

end F64
end Mat
end Ohsl
