/-
  Ohsl.Model.Solve — model of src/matrix/solve.rs: Gaussian elimination with partial
  pivoting, in-place LU (Doolittle) with recorded permutation, determinant, inverse.
-/
import Ohsl.Model.Mat
namespace Ohsl
namespace Mat
variable {K : Type}
variable [Add K] [Sub K] [Mul K] [Neg K] [Zero K] [One K] [BEq K] [ScalarExt K]

/-- `max_abs_in_column(col, start_row)`: the search starts at the diagonal row (`max_index = start_row`;
    the original `max_index = 0` exchanged an already eliminated row in on an all-zero sub-column: repaired) -/
def maxAbsInColumn (m : Mat K) (col start : Nat) : Res Nat := do
  let (idx, _) ← forM' start m.rows ((start : Nat), (0 : K)) (fun (idx, mx) i => do
    let x ← m.get i col
    let ax := ScalarExt.mag x
    if ScalarExt.lt mx ax then pure (i, ax) else pure (idx, mx))
  pure idx

/-- `backsolve(&mut x)` on the upper triangle -/
def backsolve (m : Mat K) (x : Array K) : Res (Array K) := do
  let last ← usub m.rows 1
  let xl ← aget x last
  let d ← m.get last last
  let q ← divM xl d
  let x ← aset x last q
  forM' 2 (m.rows + 1) x (fun x n => do
    let k ← usub m.rows n
    let x ← forM' (m.rows - n + 1) m.rows x (fun x j => do
      let xj ← aget x j
      let xk ← aget x k
      let kj ← m.get k j
      aset x k (xk - kj * xj))
    let xk ← aget x k
    let kk ← m.get k k
    let q ← divM xk kk
    aset x k q)

/-- `partial_pivot(x, k)` -/
def partialPivot (m : Mat K) (x : Array K) (k : Nat) : Res (Mat K × Array K) := do
  let p ← maxAbsInColumn m k k
  let m ← swapRows m p k
  let x ← Vec.swap x p k
  pure (m, x)

/-- one elimination of row `i` against pivot row `k` (columns `k..rows`, then the rhs) -/
def elimRow (k : Nat) (mx : Mat K × Array K) (i : Nat) : Res (Mat K × Array K) := do
  let (m, x) := mx
  let ik ← m.get i k
  let kk ← m.get k k
  let elem ← divM ik kk
  let m ← forM' k m.rows m (fun m j => do
    let kj ← m.get k j
    let ij ← m.get i j
    m.set i j (ij - elem * kj))
  let xk ← aget x k
  let xi ← aget x i
  let x ← aset x i (xi - elem * xk)
  pure (m, x)

/-- `gauss_with_pivot(x)` -/
def gaussWithPivot (m : Mat K) (x : Array K) : Res (Mat K × Array K) := do
  let n1 ← usub m.rows 1
  forM' 0 n1 (m, x) (fun (m, x) k => do
    let (m, x) ← partialPivot m x k
    forM' (k + 1) m.rows (m, x) (elimRow k))

/-- `solve_basic(&b)` -/
def solveBasic (m : Mat K) (b : Array K) : Res (Array K) :=
  if m.rows ≠ b.size then .error .size
  else if m.rows ≠ m.cols then .error .size
  else do
    let (m, x) ← gaussWithPivot m b
    backsolve m x

/-- state of the in-place LU: matrix, permutation, number of exchanges -/
structure LU (K : Type) where
  lu : Mat K
  perm : Mat K
  pivots : Nat

/-- pivot search of `lu_decomp_in_place`: largest magnitude on or below the diagonal -/
def luPivot (m : Mat K) (i : Nat) : Res (K × Nat) :=
  forM' i m.rows ((0 : K), i) (fun (mx, imax) k => do
    let x ← m.get k i
    let ax := ScalarExt.mag x
    if ScalarExt.lt mx ax then pure (ax, k) else pure (mx, imax))

/-- elimination of row `j` below pivot `i`, storing the multiplier in place -/
def luElimRow (i : Nat) (m : Mat K) (j : Nat) : Res (Mat K) := do
  let ii ← m.get i i
  let ji ← m.get j i
  let q ← divM ji ii
  let m ← m.set j i q
  forM' (i + 1) m.rows m (fun m k => do
    let ji ← m.get j i
    let ik ← m.get i k
    let jk ← m.get j k
    m.set j k (jk - ji * ik))

/-- one column step of `lu_decomp_in_place`; a column whose pivot magnitude is exactly zero
    is skipped (U gets a zero diagonal entry) -/
def luStep (s : LU K) (i : Nat) : Res (LU K) := do
  let (maxA, imax) ← luPivot s.lu i
  if maxA == 0 then pure s
  else do
    let s ← if imax ≠ i then do
        let p ← swapRows s.perm i imax
        let l ← swapRows s.lu i imax
        pure { lu := l, perm := p, pivots := s.pivots + 1 }
      else pure s
    let l ← forM' (i + 1) s.lu.rows s.lu (luElimRow i)
    pure { s with lu := l }

/-- `lu_decomp_in_place()` -/
def luDecomp (m : Mat K) : Res (LU K) :=
  if m.rows ≠ m.cols then .error .size
  else do
    let p ← eye m.rows
    forM' 0 m.rows { lu := m, perm := p, pivots := 0 } luStep

/-- unit-lower forward substitution of `solve_lu` -/
def forwardSub (m : Mat K) (x : Array K) : Res (Array K) :=
  forM' 0 m.rows x (fun x i =>
    forM' 0 i x (fun x k => do
      let xk ← aget x k
      let xi ← aget x i
      let ik ← m.get i k
      aset x i (xi - ik * xk)))

/-- `solve_lu(&b)` -/
def solveLU (m : Mat K) (b : Array K) : Res (Array K) :=
  if m.rows ≠ b.size then .error .size
  else if m.rows ≠ m.cols then .error .size
  else do
    let s ← luDecomp m
    let x ← mulVec s.perm b
    let x ← forwardSub s.lu x
    backsolve s.lu x

/-- `determinant()` -/
def determinant (m : Mat K) : Res K := do
  let s ← luDecomp m
  let d ← forM' 0 m.rows (1 : K) (fun d i => do
    let x ← s.lu.get i i
    pure (d * x))
  pure (if s.pivots % 2 == 0 then d else -d)

/-- `inverse()` -/
def inverse (m : Mat K) : Res (Mat K) :=
  if m.rows ≠ m.cols then .error .size
  else do
    let s ← luDecomp m
    let lu := s.lu
    forM' 0 m.rows s.perm (fun inv j => do
      let inv ← forM' 0 m.rows inv (fun inv i =>
        forM' 0 i inv (fun inv k => do
          let kj ← inv.get k j
          let ij ← inv.get i j
          let ik ← lu.get i k
          inv.set i j (ij - ik * kj)))
      (List.range m.rows).reverse.foldlM (fun inv i => do
        let inv ← forM' (i + 1) m.rows inv (fun inv k => do
          let kj ← inv.get k j
          let ij ← inv.get i j
          let ik ← lu.get i k
          inv.set i j (ij - ik * kj))
        let ij ← inv.get i j
        let ii ← lu.get i i
        let q ← divM ij ii
        inv.set i j q) inv)

end Mat
end Ohsl
