/-
  Ohsl.Model.Krylov — model of the four iterative solvers of `Sparse<f64>`
  (src/sparse.rs:303-612): CG, BiCG (itol 1, 2), BiCGSTAB, QMR.
  Polymorphic in the scalar `K` and in the vector type `V`; the matrix enters only through
  `A` (multiply) and `At` (transpose_multiply).
-/
import Ohsl.Model.Vec
namespace Ohsl

/-- vector operations the solvers use, in the forms the source uses them -/
structure VOps (K V : Type) where
  add : V → V → V        -- `x += v`, `a + b`
  sub : V → V → V        -- `r -= v`, `a - b`
  smul : V → K → V       -- `v * s`   (component `v[i] * s`)
  lsmul : K → V → V      -- `s * v`   (component `s * v[i]`)
  sdiv : V → K → V       -- `v / s`
  dot : V → V → K
  norm2 : V → K
  zero : V               -- `Vector::new(rows, 0.0)`
  A : V → V              -- `self.multiply(&v)`
  At : V → V             -- `self.transpose_multiply(&v)`

/-- `Result<usize, f64>` together with the vector left in `x` -/
structure KOut (K V : Type) where
  ok : Bool
  iters : Nat      -- meaningful when `ok`
  err : K          -- meaningful when `!ok`
  x : V

inductive Step (σ ρ : Type) where
  | cont (s : σ)
  | done (r : ρ)

/-- `for i in start..=…` with early `return`: at most `rem` more iterations -/
def iterate {σ ρ : Type} (f : Nat → σ → Step σ ρ) (fin : σ → ρ) : Nat → Nat → σ → ρ
  | 0, _, s => fin s
  | rem + 1, i, s =>
    match f i s with
    | .done r => r
    | .cont s' => iterate f fin rem (i + 1) s'

namespace Krylov
variable {K V : Type}
variable [Add K] [Sub K] [Mul K] [Neg K] [Div K] [Zero K] [One K] [BEq K] [Transc K]

/-- the divisor of the relative residual: `‖b‖`, or `1.0` when `‖b‖ == 0.0` -/
def guardNorm (nb : K) : K := if nb == 0 then 1 else nb

/-! ### CG -/
structure CGState (K V : Type) where
  x : V
  r : V
  p : V
  rho1 : K
  resid : K

/-- CG search direction: `p = z` in the first iteration, else `z + p * (rho / rho_1)` -/
def cgDir (o : VOps K V) (i : Nat) (z p : V) (rho rho1 : K) : V :=
  if i == 1 then z else o.add z (o.smul p (rho / rho1))

def cgStep (o : VOps K V) (normb tol : K) (i : Nat) (s : CGState K V) : Step (CGState K V) (KOut K V) :=
  let z := s.r
  let rho := o.dot s.r z
  let p := cgDir o i z s.p rho s.rho1
  let q := o.A p
  let alpha := rho / o.dot p q
  let x := o.add s.x (o.smul p alpha)
  let r := o.sub s.r (o.smul q alpha)
  let resid := o.norm2 r / normb
  if Transc.le resid tol then .done ⟨true, i, resid, x⟩
  else .cont ⟨x, r, p, rho, resid⟩

def solveCG (o : VOps K V) (b x : V) (maxIter : Nat) (tol : K) : KOut K V :=
  let normb0 := o.norm2 b
  let r := o.sub b (o.A x)
  let normb := guardNorm normb0
  let resid := o.norm2 r / normb
  if Transc.le resid tol then ⟨true, 0, resid, x⟩
  else iterate (cgStep o normb tol) (fun s => ⟨false, maxIter, s.resid, s.x⟩) maxIter 1
        ⟨x, r, o.zero, 1, resid⟩

/-! ### BiCG (with the identity preconditioner `z = r`, `zz = rr`) -/
structure BiCGState (K V : Type) where
  x : V
  r : V
  rr : V
  z : V
  p : V
  pp : V
  rho2 : K
  err : K

/-- BiCG direction update (used for both `p` and `pp`) -/
def bicgDir (o : VOps K V) (i : Nat) (z p : V) (rho1 rho2 : K) : V :=
  if i == 1 then z else o.add z (o.smul p (rho1 / rho2))

/-- BiCG error measure: itol 1 uses `r`, itol 2 the preconditioned residual `z` -/
def bicgErr (o : VOps K V) (itol : Nat) (r z : V) (bnrm : K) : K :=
  if itol == 1 then o.norm2 r / bnrm else o.norm2 z / bnrm

def bicgStep (o : VOps K V) (bnrm tol : K) (itol : Nat) (i : Nat) (s : BiCGState K V) :
    Step (BiCGState K V) (KOut K V) :=
  let zz := s.rr
  let rho1 := o.dot s.z s.rr
  let p := bicgDir o i s.z s.p rho1 s.rho2
  let pp := bicgDir o i zz s.pp rho1 s.rho2
  let z := o.A p
  let alpha := rho1 / o.dot z pp
  let zz := o.At pp
  let x := o.add s.x (o.smul p alpha)
  let r := o.sub s.r (o.smul z alpha)
  let rr := o.sub s.rr (o.smul zz alpha)
  let z := r
  let err := bicgErr o itol r z bnrm
  if Transc.le err tol then .done ⟨true, i, err, x⟩
  else .cont ⟨x, r, rr, z, p, pp, rho1, err⟩

/-- `solve_bicg(b, x, max_iter, tol, itol)`; `itol ∉ {1,2}` is a panic (modelled by the caller) -/
def solveBiCG (o : VOps K V) (b x : V) (maxIter : Nat) (tol : K) (itol : Nat) : KOut K V :=
  let r := o.sub b (o.A x)
  let rr := r
  let bnrm0 := o.norm2 b     -- itol 1: ‖b‖; itol 2: ‖M⁻¹ b‖ with M = I
  let z := r
  let bnrm := guardNorm bnrm0
  let err := bicgErr o itol r z bnrm
  if Transc.le err tol then ⟨true, 0, err, x⟩
  else iterate (bicgStep o bnrm tol itol) (fun s => ⟨false, maxIter, s.err, s.x⟩) maxIter 1
        ⟨x, r, rr, z, o.zero, o.zero, 1, err⟩

/-! ### BiCGSTAB -/
structure StabState (K V : Type) where
  x : V
  r : V
  p : V
  v : V
  rho2 : K
  alpha : K
  omega : K
  resid : K

/-- BiCGSTAB direction: `r` first, else `r + beta * (p - omega * v)` -/
def stabDir (o : VOps K V) (i : Nat) (s : StabState K V) (rho1 : K) : V :=
  if i == 1 then s.r
  else o.add s.r (o.lsmul ((rho1 / s.rho2) * (s.alpha / s.omega)) (o.sub s.p (o.lsmul s.omega s.v)))

def stabStep (o : VOps K V) (rtilde : V) (normb tol : K) (i : Nat) (s : StabState K V) :
    Step (StabState K V) (KOut K V) :=
  let rho1 := o.dot rtilde s.r
  if rho1 == 0 then .done ⟨false, i, o.norm2 s.r / normb, s.x⟩
  else
    let p := stabDir o i s rho1
    let phat := p
    let v := o.A phat
    let alpha := rho1 / o.dot rtilde v
    let sv := o.sub s.r (o.smul v alpha)
    let resid := o.norm2 sv / normb
    if Transc.le resid tol then .done ⟨true, i, resid, o.add s.x (o.smul phat alpha)⟩
    else
      let shat := sv
      let t := o.A shat
      let omega := o.dot t sv / o.dot t t
      let x := o.add s.x (o.lsmul alpha phat)
      let x := o.add x (o.lsmul omega shat)
      let r := o.sub sv (o.smul t omega)
      let resid := o.norm2 r / normb
      if ScalarLt.lt resid tol then .done ⟨true, i, resid, x⟩
      else if omega == 0 then .done ⟨false, i, resid, x⟩
      else .cont ⟨x, r, p, v, rho1, alpha, omega, resid⟩
where
  ScalarLt.lt (a b : K) : Bool := Transc.le a b && !(Transc.le b a)

def solveBiCGSTAB (o : VOps K V) (b x : V) (maxIter : Nat) (tol : K) : KOut K V :=
  let normb0 := o.norm2 b
  let r := o.sub b (o.A x)
  let rtilde := r
  let normb := guardNorm normb0
  let resid := o.norm2 r / normb
  if Transc.le resid tol then ⟨true, 0, resid, x⟩
  else iterate (stabStep o rtilde normb tol) (fun s => ⟨false, maxIter, s.resid, s.x⟩) maxIter 1
        ⟨x, r, o.zero, o.zero, 1, 1, 1, resid⟩

/-! ### QMR (without look-ahead) -/
structure QMRState (K V : Type) where
  x : V
  r : V
  vT : V     -- v_tld
  y : V
  wT : V     -- w_tld
  z : V
  p : V
  q : V
  d : V
  s : V
  rho : K
  xi : K
  gamma : K
  eta : K
  theta : K
  ep : K
  resid : K

/-- QMR direction: `y - c * p` after the first iteration, `y` in the first -/
def qmrDir (o : VOps K V) (i : Nat) (y p : V) (c : K) : V :=
  if i > 1 then o.sub y (o.lsmul c p) else y

/-- QMR update vectors `d`, `s`: `eta * p + c * d` after the first iteration, `eta * p` in the first -/
def qmrUpd (o : VOps K V) (i : Nat) (eta : K) (p : V) (c : K) (d : V) : V :=
  if i > 1 then o.add (o.lsmul eta p) (o.lsmul c d) else o.lsmul eta p

def qmrStep (o : VOps K V) (normb tol : K) (i : Nat) (s : QMRState K V) :
    Step (QMRState K V) (KOut K V) :=
  let fail : Step (QMRState K V) (KOut K V) := .done ⟨false, i, s.resid, s.x⟩
  if s.rho == 0 then fail
  else if s.xi == 0 then fail
  else
    let v := o.sdiv s.vT s.rho
    let y := o.sdiv s.y s.rho
    let w := o.sdiv s.wT s.xi
    let z := o.sdiv s.z s.xi
    let delta := o.dot z y
    if delta == 0 then fail
    else
      let yT := y
      let zT := z
      let p := qmrDir o i yT s.p (s.xi * delta / s.ep)
      let q := qmrDir o i zT s.q (s.rho * delta / s.ep)
      let pT := o.A p
      let ep := o.dot q pT
      if ep == 0 then fail
      else
        let beta := ep / delta
        if beta == 0 then fail
        else
          let vT := o.sub pT (o.lsmul beta v)
          let y := vT
          let rho1 := s.rho
          let rho := o.norm2 y
          let wT := o.At q
          let wT := o.sub wT (o.lsmul beta w)
          let z := wT
          let xi := o.norm2 z
          let gamma1 := s.gamma
          let theta1 := s.theta
          let theta := rho / (gamma1 * beta)
          let gamma := 1 / Transc.sqrt (1 + theta * theta)
          if gamma == 0 then fail
          else
            let eta := -s.eta * rho1 * gamma * gamma / (beta * gamma1 * gamma1)
            let d := qmrUpd o i eta p (theta1 * theta1 * gamma * gamma) s.d
            let sv := qmrUpd o i eta pT (theta1 * theta1 * gamma * gamma) s.s
            let x := o.add s.x d
            let r := o.sub s.r sv
            let resid := o.norm2 r / normb
            if Transc.le resid tol then .done ⟨true, i, resid, x⟩
            else .cont ⟨x, r, vT, y, wT, z, p, q, d, sv, rho, xi, gamma, eta, theta, ep, resid⟩

def solveQMR (o : VOps K V) (b x : V) (maxIter : Nat) (tol : K) : KOut K V :=
  let normb0 := o.norm2 b
  let r := o.sub b (o.A x)
  let normb := guardNorm normb0
  let resid := o.norm2 r / normb
  if Transc.le resid tol then ⟨true, 0, resid, x⟩
  else
    let vT := r
    let y := vT
    let rho := o.norm2 y
    let wT := r
    let z := wT
    let xi := o.norm2 z
    iterate (qmrStep o normb tol) (fun s => ⟨false, maxIter, s.resid, s.x⟩) maxIter 1
      ⟨x, r, vT, y, wT, z, o.zero, o.zero, o.zero, o.zero, rho, xi, 1, -1, 0, 1, resid⟩

end Krylov
end Ohsl
