/-
  Ohsl.Model.KrylovSp — the four iterative solvers as methods of `Sparse<f64>`
  (src/sparse.rs:303-612): the entry guards of each method followed by the solver model of
  Ohsl/Model/Krylov.lean instantiated with the array operations of `Vector` and the sparse
  products of the matrix.
-/
import Ohsl.Model.Krylov
import Ohsl.Model.Sparse
namespace Ohsl
namespace Sp
variable {K : Type}
variable [Add K] [Sub K] [Mul K] [Neg K] [Div K] [Zero K] [One K] [BEq K] [ScalarExt K] [Transc K]

/-- the vector operations of `Vector<K>` over `Array K` in the forms the solvers use them, with the
    sparse products of `s`; sizes agree by the entry guards, so the checked products cannot fail -/
def arrOps (s : Sp K) (n : Nat) (norm2 : Array K → K) : VOps K (Array K) where
  add a b := Array.zipWith (· + ·) a b
  sub a b := Array.zipWith (· - ·) a b
  smul v k := v.map (· * k)
  lsmul k v := v.map (k * ·)
  sdiv v k := v.map (· / k)
  dot a b := (Array.zipWith (· * ·) a b).foldl (· + ·) 0
  norm2 := norm2
  zero := Array.replicate n 0
  A v := match Sp.multiply s v with | .ok r => r | .error _ => #[]
  At v := match Sp.transposeMultiply s v with | .ok r => r | .error _ => #[]

/-- which method is called -/
inductive Method where
  | cg | bicg (itol : Nat) | bicgstab | qmr

/-- `solve_cg / solve_bicg / solve_bicgstab / solve_qmr (&self, b, x, max_iter, tol[, itol])`:
    the three size guards common to all four methods (in the order of the source), the first sparse
    product (which panics on inconsistent storage), the `itol` guard of `solve_bicg`, then the
    iteration -/
def solveIter (s : Sp K) (m : Method) (b x0 : Array K) (maxIter : Nat) (tol : K)
    (norm2 : Array K → K) : Res (KOut K (Array K)) :=
  if s.rows ≠ b.size then .error .size
  else if s.rows ≠ s.cols then .error .size
  else if b.size ≠ x0.size then .error .size
  else match Sp.multiply s x0 with
  -- the first statement of every method forms `A x0`; on a storage whose arrays are inconsistent
  -- (public fields, `from_vecs` validates nothing) that product panics. Whether a product of `s`
  -- with a vector of the right length panics depends on `s` alone (the same `col_start`, `row_index`,
  -- `val` reads and the same row bound in `multiply` and `transpose_multiply`), so this one test
  -- stands for every product of the run; `arrOps` may then use total products.
  | .error e => .error e
  | .ok _ =>
    let o := arrOps s s.rows norm2
    match m with
    | .cg => .ok (Krylov.solveCG o b x0 maxIter tol)
    | .bicg itol =>
      if itol ≠ 1 ∧ itol ≠ 2 then .error .range
      else .ok (Krylov.solveBiCG o b x0 maxIter tol itol)
    | .bicgstab => .ok (Krylov.solveBiCGSTAB o b x0 maxIter tol)
    | .qmr => .ok (Krylov.solveQMR o b x0 maxIter tol)

end Sp
end Ohsl
