/-
  Ohsl.Model.Poly — model of `ohsl::polynomial::Polynomial<T>` (coefficient list, lowest
  degree first): src/polynomial/{mod,arithmetic}.rs.
-/
import Ohsl.Model.Vec
namespace Ohsl
namespace Poly
variable {K : Type}
variable [Add K] [Sub K] [Mul K] [Neg K] [Zero K] [One K] [BEq K] [ScalarExt K]

/-- `degree()` : `Err` on the empty polynomial -/
def degree (p : Array K) : Option Nat := if p.size = 0 then none else some (p.size - 1)

/-- `eval(x)` : Horner from the leading coefficient; `degree().unwrap()` panics on empty -/
def eval (p : Array K) (x : K) : Res K :=
  match p.back? with
  | none => .error .unwrap
  | some lead => .ok ((p.pop.foldr (fun c acc => acc * x + c) lead))

/-- `is_zero()` : every coefficient `== 0` (true for the empty polynomial) -/
def isZero (p : Array K) : Bool := p.all (· == 0)

/-- inner loop of `trim`: pop trailing zeros but keep at least one coefficient -/
def trimList : List K → List K
  | [] => []
  | [c] => [c]
  | c :: cs => -- list is reversed: head is the leading coefficient
    if c == 0 then trimList cs else c :: cs

/-- `trim()` : `len - 1` underflows on the empty polynomial -/
def trim (p : Array K) : Res (Array K) :=
  if p.size = 0 then .error .arith
  else .ok (trimList p.toList.reverse).reverse.toArray

/-- repeated addition: `0 + c + c + … + c` (`n` summands) -/
def addRep (c : K) : Nat → K
  | 0 => 0
  | n + 1 => addRep c n + c

/-- `derivative()` : coefficient `i` is `(i+1)` copies of `a_{i+1}` added to zero -/
def derivative (p : Array K) : Res (Array K) :=
  if p.size = 0 then .error .unwrap
  else .ok (Array.ofFn (n := p.size - 1) (fun i => addRep (p[i.val + 1]?.getD 0) (i.val + 1)))

/-- `derivative_n(n)` -/
def derivativeN (p : Array K) : Nat → Res (Array K)
  | 0 => .ok p
  | n + 1 => do
    let q ← derivativeN p n
    derivative q

/-- `derivative_at(x, n)` -/
def derivativeAt (p : Array K) (x : K) (n : Nat) : Res K := do
  let q ← derivativeN p n
  -- the (degree+1)-th derivative is the empty (zero) polynomial: its value is 0 (repair D16)
  if q.size = 0 then .ok 0 else eval q x

/-- `&p + &q` -/
def add (p q : Array K) : Array K :=
  if p.size = 0 then q
  else if q.size = 0 then p
  else Array.ofFn (n := max p.size q.size) (fun i =>
    let s : K := 0
    let s := match p[i.val]? with | some a => s + a | none => s
    match q[i.val]? with | some b => s + b | none => s)

def neg (p : Array K) : Array K := p.map (fun x => -x)

/-- `&p - &q` -/
def sub (p q : Array K) : Array K :=
  if p.size = 0 then neg q
  else if q.size = 0 then p
  else Array.ofFn (n := max p.size q.size) (fun i =>
    let s : K := 0
    let s := match p[i.val]? with | some a => s + a | none => s
    match q[i.val]? with | some b => s - b | none => s)

/-- `&p * &q` : convolution, `i` outer, `j` inner -/
def mul (p q : Array K) : Array K :=
  if p.size = 0 then #[]
  else if q.size = 0 then #[]
  else
    (List.range p.size).foldl (fun acc i =>
      (List.range q.size).foldl (fun acc j =>
        acc.modify (i + j) (fun c => c + (p[i]?.getD 0) * (q[j]?.getD 0))) acc)
      (Array.replicate (p.size + q.size - 1) (0 : K))

def smul (p : Array K) (t : K) : Array K := p.map (· * t)

/-- index operator (checked) -/
def get (p : Array K) (i : Nat) : Res K := aget p i

/-- one step of the long division: `t = lead(r)/lead(v) · x^(deg r − deg v)`, `q += t`,
    `r -= t·v`, the leading coefficient of `r` is removed structurally, both are trimmed -/
def divStep (v : Array K) (q r : Array K) : Res (Array K × Array K) := do
  let dr ← usub r.size 1
  let dv ← usub v.size 1
  let k ← usub dr dv
  let lr ← aget r dr
  let lv ← aget v dv
  let c ← divM lr lv
  let t : Array K := (Array.replicate (k + 1) (0 : K)).setIfInBounds k c
  let q := add q t
  let r := sub r (mul t v)
  let lead ← usub r.size 1
  let r ← aset r lead 0
  let r ← trim r
  let q ← trim q
  pure (q, r)

/-- the `while` loop with its iteration counter (`count > MAX` ⇒ `Err`) -/
def divLoop (v : Array K) : Nat → Nat → Array K → Array K → Res (Option (Array K × Array K))
  | 0, _, _, _ => .ok none   -- fuel exhausted (never reached: fuel = MAX + 2)
  | fuel + 1, count, q, r =>
    if !(isZero r) && decide (r.size ≥ v.size) then do
      let (q, r) ← divStep v q r
      if count + 1 > 1000 then .ok none
      else divLoop v fuel (count + 1) q r
    else .ok (some (q, r))

/-- `polydiv(&v)` : `none` is the `Err(&str)` result -/
def polydiv (u v : Array K) : Res (Option (Array K × Array K)) :=
  if v.size = 0 then .ok none
  else if isZero v then .ok none
  else divLoop v 1002 0 #[] u

end Poly
end Ohsl
