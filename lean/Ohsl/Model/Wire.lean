/-
  Ohsl.Model.Wire — token-level parser / printer of the line protocol shared with the
  Rust harness (see harness/src/wire.rs).
-/
import Ohsl.Model.Inst
namespace Ohsl

/-- Parser over the remaining tokens of one request line. -/
abbrev P := StateT (List String) (Except String)

def tok : P String := do
  match (← get) with
  | [] => throw "missing token"
  | t :: ts => set ts; pure t

def pNat : P Nat := do
  let t ← tok
  match t.toNat? with
  | some n => pure n
  | none => throw s!"bad nat {t}"

def pInt : P Int := do
  let t ← tok
  match t.toInt? with
  | some n => pure n
  | none => throw s!"bad int {t}"

def hexVal (s : String) : Nat :=
  s.foldl (fun acc c => acc * 16 + (if c.isDigit then c.toNat - 48 else c.toNat - 87)) 0

def hexOf (n : Nat) : String :=
  let d := Nat.toDigits 16 n
  String.ofList (List.replicate (16 - d.length) '0' ++ d)

/-- A scalar that can travel over the wire. -/
class Wire (K : Type) where
  rd : P K
  wr : K → String

def parseRat (t : String) : Except String Rat :=
  match t.splitOn "/" with
  | [a] => match a.toInt? with
    | some n => pure (n : Rat)
    | none => throw s!"bad rat {t}"
  | [a, b] => match a.toInt?, b.toNat? with
    | some n, some d => pure (mkRat n d)
    | _, _ => throw s!"bad rat {t}"
  | _ => throw s!"bad rat {t}"

instance : Wire Rat where
  rd := do let t ← tok; liftM (m := Except String) (parseRat t)
  wr q := if q.den == 1 then toString q.num else s!"{q.num}/{q.den}"

instance : Wire Float where
  rd := do
    let t ← tok
    if t == "nan" then pure (0.0 / 0.0) else pure (Float.ofBits (hexVal t).toUInt64)
  wr x := if x.isNaN then "nan" else hexOf x.toBits.toNat

instance {K} [Wire K] : Wire (Cx K) where
  rd := do let a ← Wire.rd; let b ← Wire.rd; pure ⟨a, b⟩
  wr z := s!"{Wire.wr z.re} {Wire.wr z.im}"

instance : Wire Nat where
  rd := pNat
  wr := toString

def pArr {K} [Wire K] : P (Array K) := do
  let n ← pNat
  let mut a : Array K := Array.mkEmpty n
  for _ in [0:n] do
    a := a.push (← Wire.rd)
  pure a

def wArr {K} [Wire K] (a : Array K) : String :=
  a.foldl (fun s x => s ++ " " ++ Wire.wr x) (toString a.size)

/-- one sub-result: the value, or `!class` for a panic -/
def wRes {α} (f : α → String) : Res α → String
  | .ok v => f v
  | .error e => "!" ++ toString e

def wBool (b : Bool) : String := if b then "1" else "0"

end Ohsl
