/-
  Ohsl.Model.Mesh — model of `Mesh1D<T, X>` (src/mesh1d.rs) and `Mesh2D<T>` (src/mesh2d.rs).
-/
import Ohsl.Model.Mat
namespace Ohsl

structure Mesh1 (T X : Type) where
  nvars : Nat
  nodes : Array X
  vars : Array (Array T)
  deriving Repr, Inhabited

namespace Mesh1
variable {T X : Type} [Zero T]

def new (nodes : Array X) (nvars : Nat) : Mesh1 T X :=
  ⟨nvars, nodes, Array.replicate nodes.size (Array.replicate nvars (0 : T))⟩

def coord (m : Mesh1 T X) (node : Nat) : Res X := aget m.nodes node

def setNodesVars (m : Mesh1 T X) (node : Nat) (v : Array T) : Res (Mesh1 T X) :=
  if node ≥ m.nodes.size then .error .range
  else if v.size ≠ m.nvars then .error .size
  else do
    let vs ← aset m.vars node v
    pure { m with vars := vs }

def getNodesVars (m : Mesh1 T X) (node : Nat) : Res (Array T) :=
  if node ≥ m.nodes.size then .error .range else aget m.vars node

/-- raw `mesh[node]` and `mesh[node][var] = x` -/
def index (m : Mesh1 T X) (node : Nat) : Res (Array T) := aget m.vars node
def setVar (m : Mesh1 T X) (node var : Nat) (x : T) : Res (Mesh1 T X) := do
  let row ← aget m.vars node
  let row ← aset row var x
  let vs ← aset m.vars node row
  pure { m with vars := vs }
end Mesh1

namespace Mesh1
variable {K : Type}
variable [Add K] [Sub K] [Mul K] [Neg K] [Div K] [Zero K] [One K] [BEq K] [ScalarExt K] [Transc K]
open Transc

/-- `get_interpolated_vars(x_pos)` : every matching interval overwrites `result` (last wins) -/
def interpolate (m : Mesh1 K K) (x : K) : Res (Array K) := do
  let n1 ← usub m.nodes.size 1
  Mat.forM' 0 n1 (Array.replicate m.nvars (0 : K)) (fun result node => do
    let xl ← aget m.nodes node
    let xr ← aget m.nodes (node + 1)
    if (ScalarExt.lt xl x && ScalarExt.lt x xr) || ScalarExt.lt (fabs (xl - x)) snap
        || ScalarExt.lt (fabs (xr - x)) snap then do
      let dx := x - xl
      let left ← getNodesVars m node
      let right ← getNodesVars m (node + 1)
      let diff ← Vec.sub right left
      let deriv := diff.map (· / (xr - xl))
      Vec.add left (deriv.map (· * dx))
    else pure result)

/-- `trapezium(var)` -/
def trapezium (m : Mesh1 K K) (var : Nat) : Res K := do
  let n1 ← usub m.nodes.size 1
  Mat.forM' 0 n1 (0 : K) (fun sum node => do
    let xl ← aget m.nodes node
    let xr ← aget m.nodes (node + 1)
    let dx := xr - xl
    let a ← aget m.vars node
    let fa ← aget a var
    let b ← aget m.vars (node + 1)
    let fb ← aget b var
    pure (sum + half * dx * (fa + fb)))
end Mesh1

structure Mesh2 (T X : Type) where
  nvars : Nat
  nx : Nat
  ny : Nat
  xnodes : Array X
  ynodes : Array X
  vars : Array (Array T)
  deriving Repr, Inhabited

namespace Mesh2
variable {T X : Type} [Zero T]

def new (xn yn : Array X) (nvars : Nat) : Mesh2 T X :=
  ⟨nvars, xn.size, yn.size, xn, yn, Array.replicate (xn.size * yn.size) (Array.replicate nvars (0 : T))⟩

def coord (m : Mesh2 T X) (i j : Nat) : Res (X × X) := do
  let x ← aget m.xnodes i
  let y ← aget m.ynodes j
  pure (x, y)

/-- the guard `nodex > nx - 1 || nodey > ny - 1` (usize: underflows when a direction is empty) -/
def guard (m : Mesh2 T X) (i j : Nat) : Res Unit := do
  let a ← usub m.nx 1
  if i > a then .error .range
  else do
    let b ← usub m.ny 1
    if j > b then .error .range else pure ()

def setNodesVars (m : Mesh2 T X) (i j : Nat) (v : Array T) : Res (Mesh2 T X) := do
  guard m i j
  if v.size ≠ m.nvars then .error .size
  else do
    let vs ← aset m.vars (i * m.ny + j) v
    pure { m with vars := vs }

def getNodesVars (m : Mesh2 T X) (i j : Nat) : Res (Array T) := do
  guard m i j
  aget m.vars (i * m.ny + j)

/-- raw `mesh[(i, j)]` -/
def index (m : Mesh2 T X) (i j : Nat) : Res (Array T) := aget m.vars (i * m.ny + j)
def setVar (m : Mesh2 T X) (i j var : Nat) (x : T) : Res (Mesh2 T X) := do
  let row ← aget m.vars (i * m.ny + j)
  let row ← aset row var x
  let vs ← aset m.vars (i * m.ny + j) row
  pure { m with vars := vs }

def assign (m : Mesh2 T X) (x : T) : Res (Mesh2 T X) := do
  let vs ← Mat.forM' 0 m.nx m.vars (fun vs i =>
    Mat.forM' 0 m.ny vs (fun vs j =>
      Mat.forM' 0 m.nvars vs (fun vs v => do
        let row ← aget vs (i * m.ny + j)
        let row ← aset row v x
        aset vs (i * m.ny + j) row)))
  pure { m with vars := vs }

def crossSectionX (m : Mesh2 T X) (i : Nat) : Res (Mesh1 T X) :=
  Mat.forM' 0 m.ny (Mesh1.new m.ynodes m.nvars) (fun s j => do
    let v ← getNodesVars m i j
    Mesh1.setNodesVars s j v)

def crossSectionY (m : Mesh2 T X) (j : Nat) : Res (Mesh1 T X) :=
  Mat.forM' 0 m.nx (Mesh1.new m.xnodes m.nvars) (fun s i => do
    let v ← getNodesVars m i j
    Mesh1.setNodesVars s i v)

def varAsMatrix (m : Mesh2 T X) (var : Nat) : Res (Mat T) :=
  if var ≥ m.nvars then .error .range
  else Mat.forM' 0 m.nx (Mat.new m.nx m.ny (0 : T)) (fun mat i =>
    Mat.forM' 0 m.ny mat (fun mat j => do
      let row ← aget m.vars (i * m.ny + j)
      let x ← aget row var
      mat.set i j x))

/-- `apply(func, var)` -/
def apply (m : Mesh2 T X) (f : X → X → T) (var : Nat) : Res (Mesh2 T X) := do
  let vs ← Mat.forM' 0 m.nx m.vars (fun vs i => do
    let x ← aget m.xnodes i
    Mat.forM' 0 m.ny vs (fun vs j => do
      let y ← aget m.ynodes j
      let row ← aget vs (i * m.ny + j)
      let row ← aset row var (f x y)
      aset vs (i * m.ny + j) row))
  pure { m with vars := vs }
end Mesh2

namespace Mesh2
variable {K : Type}
variable [Add K] [Sub K] [Mul K] [Neg K] [Div K] [Zero K] [One K] [BEq K] [ScalarExt K] [Transc K]
open Transc

def quarter : K := half * half

/-- cell loop shared by `trapezium` and `square_trapezium` (`g` = identity or |·|²) -/
def trapWith (g : K → K) (m : Mesh2 K K) (var : Nat) : Res K := do
  let nx1 ← usub m.nx 1
  Mat.forM' 0 nx1 (0 : K) (fun sum i => do
    let xl ← aget m.xnodes i
    let xr ← aget m.xnodes (i + 1)
    let dx := xr - xl
    let ny1 ← usub m.ny 1
    Mat.forM' 0 ny1 sum (fun sum j => do
      let yl ← aget m.ynodes j
      let yr ← aget m.ynodes (j + 1)
      let dy := yr - yl
      let v (a b : Nat) : Res K := do
        let row ← aget m.vars (a * m.ny + b)
        aget row var
      let f00 ← v i j
      let f10 ← v (i + 1) j
      let f01 ← v i (j + 1)
      let f11 ← v (i + 1) (j + 1)
      pure (sum + quarter * dx * dy * (g f00 + g f10 + g f01 + g f11))))

def trapezium (m : Mesh2 K K) (var : Nat) : Res K := trapWith id m var
def squareTrapezium (m : Mesh2 K K) (var : Nat) : Res K :=
  trapWith (fun x => powf (fabs x) (1 + 1)) m var

end Mesh2
end Ohsl
