/-
  Ohsl.Model.Banded — model of `ohsl::banded::Banded<T>` (src/banded.rs): compact
  `n × (m1+m2+1)` storage, entry (i,j) of the band at `compact[(i, m1 + j - i)]`; corner slots
  are padding.  `decompose`/`solve`/`det` are Numerical Recipes' `bandec`/`banbks`.
-/
import Ohsl.Model.Mat
namespace Ohsl

structure Band (K : Type) where
  n : Nat
  m1 : Nat
  m2 : Nat
  compact : Mat K
  deriving Repr, Inhabited

namespace Band
variable {K : Type}
variable [Add K] [Sub K] [Mul K] [Neg K] [Zero K] [One K] [BEq K] [ScalarExt K]
open Mat (forM')

def new (n m1 m2 : Nat) (x : K) : Band K := ⟨n, m1, m2, Mat.new n (m1 + m2 + 1) x⟩

def fill (b : Band K) (x : K) : Res (Band K) := do
  let c ← Mat.fill b.compact x
  pure { b with compact := c }

def resize (b : Band K) (n m1 m2 : Nat) : Res (Band K) := do
  let c ← Mat.resize b.compact n (m1 + m2 + 1)
  pure ⟨n, m1, m2, c⟩

/-- `fill_band(band, value)` -/
def fillBand (b : Band K) (band : Int) (x : K) : Res (Band K) :=
  if band < -(b.m1 : Int) ∨ band > (b.m2 : Int) then .error .range
  else do
    let c ← Mat.fillCol b.compact ((b.m1 : Int) + band).toNat x
    pure { b with compact := c }

/-- index operator: band test, then the raw compact index -/
def get (b : Band K) (i j : Nat) : Res K :=
  if j > i + b.m2 ∨ i > j + b.m1 then .error .range
  else b.compact.get i (b.m1 + j - i)

def set (b : Band K) (i j : Nat) (v : K) : Res (Band K) :=
  if j > i + b.m2 ∨ i > j + b.m1 then .error .range
  else do
    let c ← b.compact.set i (b.m1 + j - i) v
    pure { b with compact := c }

/-- result of `decompose`: upper factor, stored multipliers, exchange indices (1-based), sign -/
structure Dec (K : Type) where
  au : Mat K
  al : Mat K
  index : Array Nat
  d : K

/-- first phase of `decompose`: left-shift the first `m1` rows -/
def shiftRows (m1 m2 : Nat) (au : Mat K) : Res (Mat K) := do
  let mm := m1 + m2 + 1
  let (au, _) ← forM' 0 m1 (au, m1) (fun (au, l) i => do
    let au ← forM' (m1 - i) mm au (fun au j => do
      let x ← au.get i j
      let c ← usub j l
      au.set i c x)
    let l ← usub l 1
    let lo ← usub (mm - l) 1
    let au ← forM' lo mm au (fun au j => au.set i j 0)
    pure (au, l))
  pure au

/-- elimination of row `i` against pivot row `k` in compact storage (shift left and subtract) -/
def decElim (mm k : Nat) (s : Mat K × Mat K) (i : Nat) : Res (Mat K × Mat K) := do
  let (au, al) := s
  let a ← au.get i 0
  let p ← au.get k 0
  -- a zero pivot means every candidate of the column is zero: the row is only shifted
  let dum ← if p == 0 then pure 0 else divM a p
  let al ← al.set k (i - k - 1) dum
  let au ← forM' 1 mm au (fun au j => do
    let x ← au.get i j
    let y ← au.get k j
    au.set i (j - 1) (x - dum * y))
  let au ← au.set i (mm - 1) 0
  pure (au, al)

/-- one pivot step `k` of `decompose`; rows are exchanged by MAGNITUDE within the band -/
def decStep (n mm : Nat) (s : Dec K × Nat) (k : Nat) : Res (Dec K × Nat) := do
  let (s, l) := s
  let dum0 ← s.au.get k 0
  let l := if l < n then l + 1 else l
  let (dum, i) ← forM' (k + 1) l (dum0, k) (fun (dum, i) j => do
    let x ← s.au.get j 0
    if ScalarExt.lt (ScalarExt.mag dum) (ScalarExt.mag x) then pure (x, j) else pure (dum, i))
  let index ← aset s.index k (i + 1)
  let au ← if dum == 0 then s.au.set k 0 0 else pure s.au
  let (au, d) ← if i ≠ k then do
      let au ← forM' 0 mm au (fun au j => Mat.swapElem au k j i j)
      pure (au, -s.d)
    else pure (au, s.d)
  let (au, al) ← forM' (k + 1) l (au, s.al) (decElim mm k)
  pure (⟨au, al, index, d⟩, l)

/-- `decompose` -/
def decompose (b : Band K) : Res (Dec K) := do
  let mm := b.m1 + b.m2 + 1
  let au ← shiftRows b.m1 b.m2 b.compact
  let al := Mat.new b.n b.m1 (0 : K)
  let index : Array Nat := Array.replicate b.n 0
  let (s, _) ← forM' 0 b.n ((⟨au, al, index, 1⟩ : Dec K), b.m1) (decStep b.n mm)
  pure s

/-- `det()` -/
def det (b : Band K) : Res K := do
  let s ← decompose b
  forM' 0 b.n s.d (fun dd i => do
    let x ← s.au.get i 0
    pure (dd * x))

/-- `solve(&b)` -/
def solve (b : Band K) (rhs : Array K) : Res (Array K) :=
  if b.n ≠ rhs.size then .error .size
  else do
    let s ← decompose b
    let mm := b.m1 + b.m2 + 1
    let (x, _) ← forM' 0 b.n (rhs, b.m1) (fun (x, l) k => do
      let ik ← aget s.index k
      let j ← usub ik 1
      let x ← if j ≠ k then Vec.swap x k j else pure x
      let l := if l < b.n then l + 1 else l
      let x ← forM' (k + 1) l x (fun x j => do
        let xk ← aget x k
        let a ← s.al.get k (j - k - 1)
        let xj ← aget x j
        aset x j (xj - a * xk))
      pure (x, l))
    let (x, _) ← (List.range b.n).reverse.foldlM (fun (xl : Array K × Nat) i => do
      let (x, l) := xl
      let xi ← aget x i
      let dum ← forM' 1 l xi (fun dum k => do
        let a ← s.au.get i k
        let xk ← aget x (k + i)
        pure (dum - a * xk))
      let p ← s.au.get i 0
      let q ← divM dum p
      let x ← aset x i q
      let l := if l < mm then l + 1 else l
      pure (x, l)) (x, 1)
    pure x

/- arithmetic: delegation to the compact matrix after the (n, m1, m2) checks -/
def sameShape (a b : Band K) : Bool := a.n == b.n && a.m1 == b.m1 && a.m2 == b.m2

def neg (a : Band K) : Res (Band K) := do
  let c ← Mat.neg a.compact; pure { a with compact := c }
def add (a b : Band K) : Res (Band K) :=
  if !(sameShape a b) then .error .size
  else do let c ← Mat.add a.compact b.compact; pure { a with compact := c }
def sub' (a b : Band K) : Res (Band K) :=
  if !(sameShape a b) then .error .size
  else do let c ← Mat.sub a.compact b.compact; pure { a with compact := c }
def smul (a : Band K) (s : K) : Res (Band K) := do
  let c ← Mat.smul a.compact s; pure { a with compact := c }
def sdiv (a : Band K) (s : K) : Res (Band K) := do
  let c ← Mat.sdiv a.compact s; pure { a with compact := c }
def addS (a : Band K) (s : K) : Res (Band K) := do
  let c ← Mat.addS a.compact s; pure { a with compact := c }
def subS (a : Band K) (s : K) : Res (Band K) := do
  let c ← Mat.subS a.compact s; pure { a with compact := c }

/-- `&B * &v` : band-limited row loop -/
def mulVec (b : Band K) (v : Array K) : Res (Array K) :=
  if b.n ≠ v.size then .error .size
  else do
    let n : Int := b.n
    let m1 : Int := b.m1
    let m2 : Int := b.m2
    forM' 0 b.n (Array.replicate b.n (0 : K)) (fun res i => do
      let k : Int := (i : Int) - m1
      let hi : Int := min (m1 + m2 + 1) (n - k)
      let lo : Int := max 0 (-k)
      forM' lo.toNat hi.toNat res (fun res j => do
        let a ← b.compact.get i j
        let x ← aget v ((j : Int) + k).toNat
        let r ← aget res i
        aset res i (r + a * x)))

end Band
end Ohsl
