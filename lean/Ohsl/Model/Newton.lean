/-
  Ohsl.Model.Newton — model of `Newton<T>::{solve, solve_jacobian}` (src/newton.rs) and of the
  finite-difference Jacobians `Mat64::jacobian`, `Matrix::<Cmplx>::jacobian_cmplx`
  (src/matrix/functions.rs:64-102).  User functions are parameters; every result carries the
  trace of points at which the user function was called.
-/
import Ohsl.Model.Solve
import Ohsl.Model.CxFun
namespace Ohsl
namespace Newton
variable {K : Type}
variable [Add K] [Sub K] [Mul K] [Neg K] [Div K] [Zero K] [One K] [BEq K] [ScalarExt K] [Transc K]
open Transc

/-- outcome of a Newton run: `ok` ⇒ `Ok(x)`, otherwise `Err(x)` (last iterate) -/
structure Out (α : Type) where
  ok : Bool
  x : α
  deriving Repr

/-- `Newton<f64>::solve` : returns the outcome and the list of evaluation points, in call order -/
def solveScalar (f : K → K) (tol delta : K) : Nat → K → List K → Out K × List K
  | 0, cur, tr => (⟨false, cur⟩, tr)
  | n + 1, cur, tr =>
    let a := cur + delta
    let b := cur - delta
    let deriv := (f a - f b) / ((1 + 1) * delta)
    let dx := f cur / deriv
    let cur' := cur - dx
    let tr := tr ++ [a, b, cur]
    if le (fabs dx) tol then (⟨true, cur'⟩, tr) else solveScalar f tol delta n cur' tr

/-- `Newton<Cmplx>::solve` -/
def solveCx (f : Cx K → Cx K) (tol delta : K) : Nat → Cx K → List (Cx K) → Out (Cx K) × List (Cx K)
  | 0, cur, tr => (⟨false, cur⟩, tr)
  | n + 1, cur, tr =>
    let a := cur + ⟨delta, 0⟩
    let b := cur - ⟨delta, 0⟩
    let deriv := Cx.divRT (f a - f b) ((1 + 1) * delta)
    let dx := Cx.divT (f cur) deriv
    let cur' := cur - dx
    let tr := tr ++ [a, b, cur]
    if le (Cx.abs dx) tol then (⟨true, cur'⟩, tr) else solveCx f tol delta n cur' tr

end Newton

/-! ### finite-difference Jacobian, generic in the element type `E` (f64 or Cmplx) -/
namespace Jac
variable {E : Type}
variable [Add E] [Sub E] [Mul E] [Neg E] [Zero E] [One E] [BEq E] [ScalarExt E]

/-- `jacobian(point, func, delta)` with `delta` already embedded in `E`.
    Returns the matrix and the points at which `func` was called. -/
def jacobian (f : Array E → Array E) (point : Array E) (delta : E) : Res (Mat E × List (Array E)) := do
  let n := point.size
  let f0 := f point
  let m := f0.size
  let (jac, _, tr) ← Mat.forM' 0 n (Mat.new m n (0 : E), point, [point]) (fun (jac, state, tr) i => do
    let xi ← aget state i
    let state ← aset state i (xi + delta)
    let fnew := f state
    let state' ← aset state i xi            -- the SAVED coordinate is put back (repair D15: `(x + δ) - δ` need not be `x` in floating point)
    let diff ← Vec.sub fnew f0
    let col ← Vec.sdiv diff delta
    let jac ← Mat.setCol jac i col
    pure (jac, state', tr ++ [state]))
  pure (jac, tr)

/-- system Newton iteration (`Newton<Vec64>::solve`, `Newton<Vector<Cmplx>>::solve` and the
    `solve_jacobian` variants): `jacF` produces the Jacobian at the current point (finite
    differences or user supplied) together with its evaluation trace; `normInf` is the vector
    inf-norm (`None` = panic on the empty vector); `leTol r` is `r <= tol`. -/
def solveSys {R : Type} (f : Array E → Array E)
    (jacF : Array E → Res (Mat E × List (Array E)))
    (normInf : Array E → Res R) (leTol : R → Bool) :
    Nat → Array E → List (Array E) → Res (Newton.Out (Array E) × List (Array E))
  | 0, cur, tr => .ok (⟨false, cur⟩, tr)
  | n + 1, cur, tr => do
    let fv := f cur
    let maxRes ← normInf fv
    let (j, jtr) ← jacF cur
    let dx ← Mat.solveBasic j fv
    let cur' ← Vec.sub cur dx
    let tr := tr ++ [cur] ++ jtr
    if leTol maxRes then pure (⟨true, cur'⟩, tr) else solveSys f jacF normInf leTol n cur' tr

end Jac
end Ohsl
