/-
  Ohsl.Model.Basic — error type, scalar classes.
  Core Lean only (no Mathlib): everything under Ohsl/Model is executable and is linked
  into the `ohsl-model` driver that is compared with the Rust implementation.
-/
namespace Ohsl

/-- Classes of Rust panics (derived from the panic message on the Rust side). -/
inductive Err where
  | size        -- mismatched sizes / shapes
  | range       -- row / column / node / index argument out of range, slice index out of bounds
  | zeroPivot   -- explicit zero-pivot refusal (Tridiagonal::solve)
  | arith       -- division by an exact zero (exact element types only), usize underflow
  | unwrap      -- `unwrap()` on None / Err (empty polynomial, pop on empty)
  | other
  deriving Repr, DecidableEq, Inhabited

def Err.toString : Err → String
  | .size => "size" | .range => "range" | .zeroPivot => "zero-pivot"
  | .arith => "arith" | .unwrap => "unwrap" | .other => "other"

instance : ToString Err := ⟨Err.toString⟩

/-- Result of a modelled Rust call: `.error e` is a panic of class `e`. -/
abbrev Res (α : Type) := Except Err α

/-- The part of `ohsl::traits::{Number, Signed}` + `PartialOrd` that is not a core operator class.
  * `divM`  : Rust `/`. Infallible on f64, a panic on an exact zero divisor for exact types.
  * `lt`    : `PartialOrd::lt` (lexicographic on `Complex`).
  * `mag`   : `Signed::abs` (`if x < 0 {-x} else {x}`; `|z| + 0i` on `Complex<f64>`). -/
class ScalarExt (K : Type) where
  divM : K → K → Res K
  lt   : K → K → Bool
  mag  : K → K

export ScalarExt (divM)

/-- Operations that exist only for `f64` in the library (`f64::sqrt`, … and `n as f64`).
  At `Float` they are the libm functions; in the proof files they are instantiated at `ℝ`. -/
class Transc (K : Type) where
  sqrt : K → K
  sin : K → K
  cos : K → K
  tan : K → K
  exp : K → K
  ln : K → K
  sinh : K → K
  cosh : K → K
  fabs : K → K           -- inherent `f64::abs`
  atan2 : K → K → K      -- `y.atan2(x)`
  powf : K → K → K
  fmax : K → K → K       -- `f64::max` (NaN-ignoring)
  ofNat : Nat → K        -- `n as f64`
  le : K → K → Bool      -- `<=` on f64
  half : K               -- 0.5
  piHalf : K             -- ohsl::constant::PI_2
  eps : K                -- f64::EPSILON
  snap : K               -- 1.0e-7 (Mesh1D snapping window)

/-- `a > b` on a `PartialOrd` is `b < a`. -/
@[inline] def gtS {K} [ScalarExt K] (a b : K) : Bool := ScalarExt.lt b a

end Ohsl
