/-
  Ohsl.Model.Cx — model of `ohsl::complex::Complex<T>` (src/complex/mod.rs).
  Every definition keeps the operation order of the Rust source (needed for bit-equality
  at `Float`).
-/
import Ohsl.Model.Basic
namespace Ohsl

structure Cx (K : Type) where
  re : K
  im : K
  deriving Repr, Inhabited

namespace Cx
variable {K : Type}

section Arith
variable [Add K] [Sub K] [Mul K] [Neg K] [Zero K] [One K] [BEq K] [ScalarExt K]

/-- `Complex::conj` -/
def conj (z : Cx K) : Cx K := ⟨z.re, -z.im⟩
/-- unary `-` -/
def neg (z : Cx K) : Cx K := ⟨-z.re, -z.im⟩
def add (a b : Cx K) : Cx K := ⟨a.re + b.re, a.im + b.im⟩
def sub (a b : Cx K) : Cx K := ⟨a.re - b.re, a.im - b.im⟩
/-- (a+ib)(c+id) = (ac − bd) + i(ad + bc), in the source's order -/
def mul (a b : Cx K) : Cx K := ⟨a.re * b.re - a.im * b.im, a.re * b.im + a.im * b.re⟩
/-- `Div<Complex<T>>`: [(ac+bd) + i(bc−ad)] / (c²+d²); the two quotients use `T`'s `/`. -/
def div (a b : Cx K) : Res (Cx K) := do
  let den := b.re * b.re + b.im * b.im
  let re := a.re * b.re + a.im * b.im
  let im := a.im * b.re - a.re * b.im
  let r ← divM re den
  let i ← divM im den
  pure ⟨r, i⟩

/- mixed complex/real forms -/
def addR (z : Cx K) (r : K) : Cx K := ⟨z.re + r, z.im⟩
def subR (z : Cx K) (r : K) : Cx K := ⟨z.re - r, z.im⟩
def mulR (z : Cx K) (r : K) : Cx K := ⟨z.re * r, z.im * r⟩
def divR (z : Cx K) (r : K) : Res (Cx K) := do
  let a ← divM z.re r
  let b ← divM z.im r
  pure ⟨a, b⟩

/- compound assignment forms, written as the sequence of scalar assignments of the source -/
def addAssign (s rhs : Cx K) : Cx K :=
  let re := s.re + rhs.re
  let im := s.im + rhs.im
  ⟨re, im⟩
def subAssign (s rhs : Cx K) : Cx K :=
  let re := s.re - rhs.re
  let im := s.im - rhs.im
  ⟨re, im⟩
/-- `*=` : saves the old real part in `a` before overwriting it. -/
def mulAssign (s rhs : Cx K) : Cx K :=
  let a := s.re
  let re := s.re * rhs.re
  let re := re - s.im * rhs.im
  let im := s.im * rhs.re
  let im := im + a * rhs.im
  ⟨re, im⟩
/-- `/=` -/
def divAssign (s rhs : Cx K) : Res (Cx K) := do
  let a := s.re
  let den := rhs.re * rhs.re + rhs.im * rhs.im
  let re := s.re * rhs.re
  let re := re + s.im * rhs.im
  let re ← divM re den
  let im := s.im * rhs.re
  let im := im - a * rhs.im
  let im ← divM im den
  pure ⟨re, im⟩
def addAssignR (s : Cx K) (r : K) : Cx K := ⟨s.re + r, s.im⟩
def subAssignR (s : Cx K) (r : K) : Cx K := ⟨s.re - r, s.im⟩
def mulAssignR (s : Cx K) (r : K) : Cx K := ⟨s.re * r, s.im * r⟩
def divAssignR (s : Cx K) (r : K) : Res (Cx K) := do
  let a ← divM s.re r
  let b ← divM s.im r
  pure ⟨a, b⟩

def zero : Cx K := ⟨0, 0⟩
def one : Cx K := ⟨1, 0⟩

/-- `PartialEq` -/
def beq (a b : Cx K) : Bool := a.re == b.re && a.im == b.im

/-- `abs_sqr` -/
def absSqr (z : Cx K) : K := z.re * z.re + z.im * z.im

/-- `PartialOrd::partial_cmp` is lexicographic; `a < b` iff it returns `Some(Less)`. -/
def lt (a b : Cx K) : Bool :=
  if a.re != b.re then ScalarExt.lt a.re b.re else ScalarExt.lt a.im b.im

instance : Add (Cx K) := ⟨add⟩
instance : Sub (Cx K) := ⟨sub⟩
instance : Mul (Cx K) := ⟨mul⟩
instance : Neg (Cx K) := ⟨neg⟩
instance : Zero (Cx K) := ⟨zero⟩
instance : One (Cx K) := ⟨one⟩
instance : BEq (Cx K) := ⟨beq⟩

/-- Result of `partial_cmp` as the code computes it: 0 = Less, 1 = Equal, 2 = Greater,
    3 = None (only with NaN). `le`/`eqb` stand for the component `partial_cmp`. -/
def cmp (a b : Cx K) : Nat :=
  let c (x y : K) : Nat :=
    if ScalarExt.lt x y then 0 else if x == y then 1 else if ScalarExt.lt y x then 2 else 3
  if a.re != b.re then c a.re b.re else c a.im b.im

end Arith

section F64
variable [Add K] [Sub K] [Mul K] [Neg K] [Zero K] [One K] [BEq K] [ScalarExt K] [Transc K]

/-- `Complex<f64>::abs` -/
def abs (z : Cx K) : K := Transc.sqrt (absSqr z)
/-- `Complex<f64>::arg` -/
def arg (z : Cx K) : K := Transc.atan2 z.im z.re

/-- `Signed for Complex<f64>` : |z| + 0i -/
instance instScalarExt : ScalarExt (Cx K) where
  divM := div
  lt := lt
  mag z := ⟨abs z, 0⟩

end F64
end Cx
end Ohsl
