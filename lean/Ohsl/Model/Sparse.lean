/-
  Ohsl.Model.Sparse — model of `ohsl::sparse::Sparse<T>` (src/sparse.rs): compressed sparse
  column storage with public fields.
-/
import Ohsl.Model.Mat
namespace Ohsl

structure Sp (K : Type) where
  rows : Nat
  cols : Nat
  nonzero : Nat
  val : Array K
  rowIndex : Array Nat
  colStart : Array Nat
  deriving Repr, Inhabited

namespace Sp
variable {K : Type}
variable [Add K] [Sub K] [Mul K] [Neg K] [Zero K] [One K] [BEq K] [ScalarExt K]
open Mat (forM')

/-- `from_vecs` -/
def fromVecs (rows cols : Nat) (val : Array K) (rowIndex colStart : Array Nat) : Res (Sp K) := do
  let last ← usub colStart.size 1
  let nz ← aget colStart last
  pure ⟨rows, cols, nz, val, rowIndex, colStart⟩

/-- `col_start_from_index(col_index)` with the matrix' `cols` and `nonzero` -/
def colStartFromIndex (cols nonzero : Nat) (colIndex : Array Nat) : Res (Array Nat) := do
  let cs : Array Nat := Array.replicate (cols + 1) 0
  let cs ← forM' 0 nonzero cs (fun cs n => do
    let c ← aget colIndex n
    let x ← aget cs c
    aset cs c (x + 1))
  let (cs, sum) ← forM' 0 cols (cs, 0) (fun (cs, sum) k => do
    let ck ← aget cs k
    let cs ← aset cs k sum
    pure (cs, sum + ck))
  aset cs cols sum

/-- insert `t` before the first element whose column is ≥ its own -/
def insByCol (t : Nat × Nat × K) : List (Nat × Nat × K) → List (Nat × Nat × K)
  | [] => [t]
  | u :: us => if t.2.1 ≤ u.2.1 then t :: u :: us else u :: insByCol t us

/-- models `sort_by_key(|t| t.1)`: a STABLE sort by column (insertion from the back) -/
def sortByCol (ts : List (Nat × Nat × K)) : List (Nat × Nat × K) := ts.foldr insByCol []

/-- `from_triplets` -/
def fromTriplets (rows cols : Nat) (ts : List (Nat × Nat × K)) : Res (Sp K) := do
  let sorted := sortByCol ts
  let (ri, ci, vs) ← sorted.foldlM (fun (acc : Array Nat × Array Nat × Array K) t => do
    let (ri, ci, vs) := acc
    if t.1 ≥ rows then .error .range
    else if t.2.1 ≥ cols then .error .range
    else pure (ri.push t.1, ci.push t.2.1, vs.push t.2.2)) (#[], #[], #[])
  let nz := ri.size
  let cs ← colStartFromIndex cols nz ci
  pure ⟨rows, cols, nz, vs, ri, cs⟩

/-- `col_index()` : run-length expansion of `col_start` -/
def colIndex (s : Sp K) : Res (Array Nat) :=
  if s.nonzero = 0 then .ok #[]
  else if s.colStart.size < s.cols + 1 then .error .range
  else forM' 0 (s.colStart.size - 1) (#[] : Array Nat) (fun acc k => do
    let a ← aget s.colStart (k + 1)
    let b ← aget s.colStart k
    let gap ← usub a b
    pure (acc ++ Array.replicate gap k))

/-- `get(row, col)` : linear scan over (row_index, expanded column index) -/
def get (s : Sp K) (row col : Nat) : Res (Option K) :=
  if s.rows ≤ row then .error .range
  else if s.cols ≤ col then .error .range
  else if s.colStart.size ≤ col then .error .range
  else do
    let ci ← colIndex s
    let r ← forM' 0 s.nonzero (none : Option K) (fun found k =>
      match found with
      | some v => pure (some v)
      | none => do
        let ri ← aget s.rowIndex k
        -- `&&` short-circuits: `col_index[k]` is read only when the row matches
        if ri == row then do
          let c ← aget ci k
          if c == col then do
            let v ← aget s.val k
            pure (some v)
          else pure none
        else pure none)
    pure r

/-- `scale(value)` -/
def scale (s : Sp K) (a : K) : Res (Sp K) := do
  let v ← forM' 0 s.nonzero s.val (fun v k => do
    let x ← aget v k
    aset v k (x * a))
  pure { s with val := v }

/-- `multiply(x)` : column-oriented scatter -/
def multiply (s : Sp K) (x : Array K) : Res (Array K) :=
  if s.cols ≠ x.size then .error .size
  else forM' 0 s.cols (Array.replicate s.rows (0 : K)) (fun res j => do
    let xj ← aget x j
    let lo ← aget s.colStart j
    let hi ← aget s.colStart (j + 1)
    forM' lo hi res (fun res k => do
      let ri ← aget s.rowIndex k
      let v ← aget s.val k
      let r ← aget res ri
      aset res ri (r + v * xj)))

/-- `transpose_multiply(x)` : column-oriented gather -/
def transposeMultiply (s : Sp K) (x : Array K) : Res (Array K) :=
  if s.rows ≠ x.size then .error .size
  else forM' 0 s.cols (Array.replicate s.cols (0 : K)) (fun res i => do
    let lo ← aget s.colStart i
    let hi ← aget s.colStart (i + 1)
    forM' lo hi res (fun res k => do
      let v ← aget s.val k
      let ri ← aget s.rowIndex k
      let xr ← aget x ri
      let r ← aget res i
      aset res i (r + v * xr)))

/-- `transpose()` : count rows, prefix sums, scatter with running counters -/
def transpose (s : Sp K) : Res (Sp K) := do
  let count0 : Array Nat := Array.replicate s.rows 0
  let count ← forM' 0 s.cols count0 (fun count i => do
    let lo ← aget s.colStart i
    let hi ← aget s.colStart (i + 1)
    forM' lo hi count (fun count j => do
      let r ← aget s.rowIndex j
      let c ← aget count r
      aset count r (c + 1)))
  let cs0 : Array Nat := Array.replicate (s.rows + 1) 0
  let cs ← forM' 0 s.rows cs0 (fun cs j => do
    let a ← aget cs j
    let c ← aget count j
    aset cs (j + 1) (a + c))
  let at0 : Array Nat × Array K × Array Nat :=
    (Array.replicate s.nonzero 0, Array.replicate s.nonzero (0 : K), count0)
  let (ri, vs, _) ← forM' 0 s.cols at0 (fun st i => do
    let lo ← aget s.colStart i
    let hi ← aget s.colStart (i + 1)
    forM' lo hi st (fun (ri, vs, count) j => do
      let k ← aget s.rowIndex j
      let base ← aget cs k
      let c ← aget count k
      let index := base + c
      let ri ← aset ri index i
      let v ← aget s.val j
      let vs ← aset vs index v
      let count ← aset count k (c + 1)
      pure (ri, vs, count)))
  pure ⟨s.cols, s.rows, s.nonzero, vs, ri, cs⟩

/-- `to_triplets()` -/
def toTriplets (s : Sp K) : Res (List (Nat × Nat × K)) := do
  let a ← forM' 0 s.cols (#[] : Array (Nat × Nat × K)) (fun acc j => do
    let lo ← aget s.colStart j
    let hi ← aget s.colStart (j + 1)
    forM' lo hi acc (fun acc k => do
      let r ← aget s.rowIndex k
      let v ← aget s.val k
      pure (acc.push (r, j, v))))
  pure a.toList

/-- `insert(row, col, value)` : overwrite if present, else rebuild from triplets -/
def insert (s : Sp K) (row col : Nat) (v : K) : Res (Sp K) :=
  if s.rows ≤ row then .error .range
  else if s.cols ≤ col then .error .range
  else if s.colStart.size ≤ col then .error .range
  else do
    let ci ← colIndex s
    let hit ← forM' 0 s.nonzero (none : Option Nat) (fun found k =>
      match found with
      | some i => pure (some i)
      | none => do
        let ri ← aget s.rowIndex k
        if ri == row then do
          let c ← aget ci k
          if c == col then pure (some k) else pure none
        else pure none)
    match hit with
    | some k => do
      let vs ← aset s.val k v
      pure { s with val := vs }
    | none => do
      let ts ← toTriplets s
      fromTriplets s.rows s.cols (ts ++ [(row, col, v)])

/-- `to_dense()` -/
def toDense (s : Sp K) : Res (Mat K) :=
  forM' 0 s.cols (Mat.new s.rows s.cols (0 : K)) (fun d j => do
    let lo ← aget s.colStart j
    let hi ← aget s.colStart (j + 1)
    forM' lo hi d (fun d k => do
      let r ← aget s.rowIndex k
      let v ← aget s.val k
      d.set r j v))

end Sp
end Ohsl
