/-
  Ohsl.Model.CxFun — model of the `Complex<f64>` elementary, trigonometric and hyperbolic
  functions (src/complex/{elementary,trigonometric,hyperbolic}.rs), exactly as coded.
  Division is the total `/` of the component type (f64 never panics on division).
-/
import Ohsl.Model.Cx
namespace Ohsl
namespace Cx
variable {K : Type}
variable [Add K] [Sub K] [Mul K] [Neg K] [Div K] [Zero K] [One K] [BEq K] [ScalarExt K] [Transc K]
open Transc

/-- `Complex / Complex` with the component type's total division -/
def divT (a b : Cx K) : Cx K :=
  let den := b.re * b.re + b.im * b.im
  ⟨(a.re * b.re + a.im * b.im) / den, (a.im * b.re - a.re * b.im) / den⟩
/-- `Complex / f64` -/
def divRT (z : Cx K) (r : K) : Cx K := ⟨z.re / r, z.im / r⟩

/-- the constant `I` -/
def I : Cx K := ⟨0, 1⟩

def csqrt (z : Cx K) : Cx K :=
  let sa := sqrt (abs z)
  let th := arg z
  ⟨sa * cos (half * th), sa * sin (half * th)⟩

def cpow (z w : Cx K) : Cx K :=
  let r2 := absSqr z
  let th := arg z
  let x := powf r2 (half * w.re) * exp (-w.im * th)
  let y := w.re * th + half * w.im * ln r2
  ⟨x * cos y, x * sin y⟩

def cpowf (z : Cx K) (x : K) : Cx K :=
  let r2 := absSqr z
  let th := arg z
  let a := powf r2 (half * x)
  let b := x * th
  ⟨a * cos b, a * sin b⟩

def cexp (z : Cx K) : Cx K :=
  let a := exp z.re
  ⟨a * cos z.im, a * sin z.im⟩

def cln (z : Cx K) : Cx K := ⟨ln (abs z), arg z⟩
def clog (z b : Cx K) : Cx K := divT (cln z) (cln b)
def polar (r th : K) : Cx K := ⟨r * cos th, r * sin th⟩

def csin (z : Cx K) : Cx K := ⟨sin z.re * cosh z.im, cos z.re * sinh z.im⟩
def ccos (z : Cx K) : Cx K := ⟨cos z.re * cosh z.im, -sin z.re * sinh z.im⟩
def ctan (z : Cx K) : Cx K := divT (csin z) (ccos z)
def csec (z : Cx K) : Cx K := divT 1 (ccos z)
def ccsc (z : Cx K) : Cx K := divT 1 (csin z)
def ccot (z : Cx K) : Cx K := divT 1 (ctan z)

def casin (z : Cx K) : Cx K :=
  let sq := z * z
  (-(I : Cx K)) * cln (csqrt (1 - sq) + I * z)
def cacos (z : Cx K) : Cx K :=
  let sq := z * z
  addR (I * cln (csqrt (1 - sq) + I * z)) piHalf
def catan (z : Cx K) : Cx K :=
  let iz := (I : Cx K) * z
  mulR ((cln (1 - iz) - cln (1 + iz)) * I) half
def casec (z : Cx K) : Cx K := cacos (divT 1 z)
def cacsc (z : Cx K) : Cx K := casin (divT 1 z)
def cacot (z : Cx K) : Cx K := catan (divT 1 z)

def csinh (z : Cx K) : Cx K := ⟨sinh z.re * cos z.im, cosh z.re * sin z.im⟩
def ccosh (z : Cx K) : Cx K := ⟨cosh z.re * cos z.im, sinh z.re * sin z.im⟩
def ctanh (z : Cx K) : Cx K := divT (csinh z) (ccosh z)
def csech (z : Cx K) : Cx K := divT 1 (ccosh z)
def ccsch (z : Cx K) : Cx K := divT 1 (csinh z)
def ccoth (z : Cx K) : Cx K := divT 1 (ctanh z)

def casinh (z : Cx K) : Cx K := cln (csqrt (addR (z * z) 1) + z)
def cacosh (z : Cx K) : Cx K := cln (csqrt (subR z 1) * csqrt (addR z 1) + z)
def catanh (z : Cx K) : Cx K := mulR (cln (addR z 1) - cln (1 - z)) half
def casech (z : Cx K) : Cx K := cacosh (divT 1 z)
def cacsch (z : Cx K) : Cx K := casinh (divT 1 z)
def cacoth (z : Cx K) : Cx K := catanh (divT 1 z)

end Cx
end Ohsl
