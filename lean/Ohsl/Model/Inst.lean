/-
  Ohsl.Model.Inst — the two executable interpretations of the scalar classes:
  `Rat` (exact; division by zero is the panic the harness's rational type raises) and
  `Float` (IEEE binary64, libm — compared bit for bit with Rust `f64`).
-/
import Ohsl.Model.Cx
namespace Ohsl

instance : ScalarExt Rat where
  divM a b := if b == 0 then .error .arith else .ok (a / b)
  lt a b := decide (a < b)
  mag a := if a < 0 then -a else a

instance : ScalarExt Float where
  divM a b := .ok (a / b)
  lt a b := decide (a < b)
  mag a := if a < 0 then -a else a

instance : Transc Float where
  sqrt := Float.sqrt
  sin := Float.sin
  cos := Float.cos
  tan := Float.tan
  exp := Float.exp
  ln := Float.log
  sinh := Float.sinh
  cosh := Float.cosh
  fabs := Float.abs
  atan2 := Float.atan2
  powf := Float.pow
  fmax a b := if a.isNaN then b else if b.isNaN then a else if a < b then b else a
  ofNat := Nat.toFloat
  le a b := decide (a ≤ b)
  half := 0.5
  piHalf := Float.ofBits 0x3FF921FB54442D18
  eps := Float.ofBits 0x3CB0000000000000
  snap := 1.0e-7

end Ohsl
