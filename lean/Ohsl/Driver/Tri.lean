import Ohsl.Driver.Common
import Ohsl.Model.Tridiag
namespace Ohsl
namespace DrvTri
variable {K : Type} [Scalar K]

def wTri (t : Tri K) : String := s!"{t.n} {wArr t.sub} {wArr t.main} {wArr t.sup}"

def tri : P String := do
  let sub : Array K ← pArr
  let main : Array K ← pArr
  let sup : Array K ← pArr
  let r : Array K ← pArr
  let v : Array K ← pArr
  let s : K ← Wire.rd
  let i ← pNat
  let j ← pNat
  match Tri.withVecs sub main sup with
  | .error e => pure ("!" ++ toString e ++ " !" ++ toString e)   -- with_vecs and with_vectors: the same guard
  | .ok t =>
    let other := Tri.transpose t
    let parts : List String := [
      wRes Wire.wr (Tri.get t i j), wRes wMat (Tri.convert t), wTri (Tri.transpose t),
      wRes Wire.wr (Tri.det t), wRes wArr (Tri.solve t r), wRes wArr (Tri.mulVec t v),
      wTri (Tri.neg t), wRes wTri (Tri.add t other), wRes wTri (Tri.sub' t other),
      wTri (Tri.smul t s), wRes wTri (Tri.sdiv t s), wTri (Tri.addS t s), wTri (Tri.subS t s),
      wTri (Tri.smul t s), wRes wTri (Tri.sdiv t s),
      wRes wTri (Tri.set t i j s), wRes wTri (Tri.withElements s (s + 1) (s - 1) i), wRes wTri (Tri.new (K := K) j),
      wRes wTri (Tri.new (K := K) i), wTri (Tri.transpose t), wRes wTri (Tri.withVecs sub main sup)]
    pure (" ".intercalate parts)

def exec (op : String) : P (Option String) := do
  match op with
  | "tri" => let tag ← tok; some <$> byTag tag (fun K _ => tri (K := K))
  | _ => pure none
end DrvTri
end Ohsl
