import Ohsl.Driver.Common
import Ohsl.Model.Tridiag
namespace Ohsl
namespace DrvTri
variable {K : Type} [Scalar K]

def wTri (t : Tri K) : String := s!"{t.n} {wArr t.sub} {wArr t.main} {wArr t.sup}"

def tri : P String := do
  let sub : Array K ← pArr
  let main : Array K ← pArr
  let sup : Array K ← pArr
  let r : Array K ← pArr
  let v : Array K ← pArr
  let s : K ← Wire.rd
  let i ← pNat
  let j ← pNat
  match Tri.withVecs sub main sup with
  | .error e => pure ("!" ++ toString e ++ " !" ++ toString e)   -- with_vecs and with_vectors: the same guard
  | .ok t =>
    let other := Tri.transpose t
    let parts : List String := [
      wRes Wire.wr (Tri.get t i j), wRes wMat (Tri.convert t), wTri (Tri.transpose t),
      wRes Wire.wr (Tri.det t), wRes wArr (Tri.solve t r), wRes wArr (Tri.mulVec t v),
      wTri (Tri.neg t), wRes wTri (Tri.add t other), wRes wTri (Tri.sub' t other),
      wTri (Tri.smul t s), wRes wTri (Tri.sdiv t s), wTri (Tri.addS t s), wTri (Tri.subS t s),
      wTri (Tri.smul t s), wRes wTri (Tri.sdiv t s),
      wRes wTri (Tri.set t i j s), wRes wTri (Tri.withElements s (s + 1) (s - 1) i), wRes wTri (Tri.new (K := K) j),
      wRes wTri (Tri.new (K := K) i), wTri (Tri.transpose t), wRes wTri (Tri.withVecs sub main sup)]
    pure (" ".intercalate parts)

/-- history of edits of one tridiagonal matrix; after every step the object and its product with the ones vector -/
def triHist : P String := do
  let sub : Array K ← pArr
  let main : Array K ← pArr
  let sup : Array K ← pArr
  let nops ← pNat
  match Tri.withVecs sub main sup with
  | .error e => pure ("!" ++ toString e)
  | .ok t0 =>
    let mut t := t0
    let mut out := wTri t
    for _ in [0:nops] do
      let op ← tok
      let r : Res (Tri K) ← (match op with
        | "resize" => do let n ← pNat; pure (Tri.new (K := K) n)
        | "set" => do let i ← pNat; let j ← pNat; let x : K ← Wire.rd; pure (Tri.set t i j x)
        | "trip" => pure (.ok (Tri.transpose t))
        | "muls" => do let x : K ← Wire.rd; pure (.ok (Tri.smul t x))
        | "divs" => do let x : K ← Wire.rd; pure (Tri.sdiv t x)
        | "adds" => do let x : K ← Wire.rd; pure (.ok (Tri.addS t x))
        | "subs" => do let x : K ← Wire.rd; pure (.ok (Tri.subS t x))
        | _ => throw s!"unknown tridiagonal op {op}" : P (Res (Tri K)))
      let o : String := match r with
        | .ok _ => "ok"
        | .error e => "!" ++ toString e
      t := match r with
        | .ok t' => t'
        | .error _ => t
      out := out ++ s!" ; {op} {o} | {wTri t}"
      let skipView : Bool := match r with | .error _ => op == "divs" | .ok _ => false
      if !skipView && t.n ≥ 1 then
        out := out ++ " | " ++ wRes wArr (Tri.mulVec t (Array.replicate t.n (1 : K)))
    pure out

def exec (op : String) : P (Option String) := do
  match op with
  | "tri_hist" => let tag ← tok; some <$> byTag tag (fun K _ => triHist (K := K))
  | "tri" => let tag ← tok; some <$> byTag tag (fun K _ => tri (K := K))
  | _ => pure none
end DrvTri
end Ohsl
