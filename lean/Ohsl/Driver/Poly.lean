import Ohsl.Driver.Common
import Ohsl.Model.Poly
namespace Ohsl
namespace DrvPoly
variable {K : Type} [Scalar K]

def ops : P String := do
  let p : Array K ← pArr
  let q : Array K ← pArr
  let x : K ← Wire.rd
  let s : K ← Wire.rd
  let n ← pNat
  let sum := Poly.add p q
  let prd := Poly.mul p q
  let wa : Array K → String := wArr
  let wk : K → String := Wire.wr
  let parts : List String := [
    wa sum, wa (Poly.sub p q), wa (Poly.neg p), wa prd, wa (Poly.smul p s),
    wRes wk (Poly.eval p x), wRes wk (Poly.eval q x), wRes wk (Poly.eval sum x), wRes wk (Poly.eval prd x),
    wRes wa (Poly.derivative p), wRes wa (Poly.derivativeN p n), wRes wk (Poly.derivativeAt p x n),
    (match Poly.degree p with | some d => toString d | none => "E"), wBool (Poly.isZero p), toString p.size,
    wRes wa (Poly.trim p), wRes wk (Poly.get p n), wRes wa (aset p n s),
    wa #[x + s, s, x], wa #[x * s, x + s, s, x], wa (p.push s)]
  pure (" ".intercalate parts)

def polydiv : P String := do
  let u : Array K ← pArr
  let v : Array K ← pArr
  match Poly.polydiv u v with
  | .error e => pure ("!" ++ toString e)
  | .ok none => pure "err"
  | .ok (some (q, r)) => pure s!"ok {wArr q} ; {wArr r}"

def exec (op : String) : P (Option String) := do
  match op with
  | "poly_ops" => let tag ← tok; some <$> byTag tag (fun K _ => ops (K := K))
  | "polydiv" => let tag ← tok; some <$> byTag tag (fun K _ => polydiv (K := K))
  | _ => pure none
end DrvPoly
end Ohsl
