import Ohsl.Driver.Common
import Ohsl.Model.Banded
namespace Ohsl
namespace DrvBand
variable {K : Type} [Scalar K]

def wBand (b : Band K) : String := s!"{b.n} {b.m1} {b.m2} {wMat b.compact}"

def band : P String := do
  let n ← pNat; let m1 ← pNat; let m2 ← pNat
  let _pad : K ← Wire.rd
  let c1 : Mat K ← pMat
  let _pad2 : K ← Wire.rd
  let c2 : Mat K ← pMat
  let rhs : Array K ← pArr
  let v : Array K ← pArr
  let s : K ← Wire.rd
  let i ← pNat; let j ← pNat
  let bandno ← pInt
  let x : K ← Wire.rd
  let a : Band K := ⟨n, m1, m2, c1⟩
  let a2 : Band K := ⟨n, m1, m2, c2⟩
  let run (b : Band K) : List String :=
    [wRes wArr (Band.mulVec b v), wRes Wire.wr (Band.det b), wRes wArr (Band.solve b rhs)]
  let ar : List (Res (Band K)) := [
    Band.neg a, Band.add a a2, Band.sub' a a2, Band.smul a s, Band.sdiv a s,
    Band.add a a2, Band.sub' a a2, Band.smul a s, Band.sdiv a s, Band.addS a s, Band.subS a s,
    Band.fillBand a bandno x]
  let extra : List (Res (Band K)) := [Band.set a i j x, Band.fill a x, Band.resize a (n + i % 2) ((m1 + j) % (n + 1)) m2]
  let parts := [wRes Wire.wr (Band.get a i j)] ++ run a ++ run a2 ++ ar.map (wRes wBand) ++ extra.map (wRes wBand)
  pure (" ".intercalate parts)

def exec (op : String) : P (Option String) := do
  match op with
  | "band" => let tag ← tok; some <$> byTag tag (fun K _ => band (K := K))
  | _ => pure none
end DrvBand
end Ohsl
