import Ohsl.Driver.Common
import Ohsl.Model.Banded
namespace Ohsl
namespace DrvBand
variable {K : Type} [Scalar K]

def wBand (b : Band K) : String := s!"{b.n} {b.m1} {b.m2} {wMat b.compact}"

def band : P String := do
  let n ← pNat; let m1 ← pNat; let m2 ← pNat
  let _pad : K ← Wire.rd
  let c1 : Mat K ← pMat
  let _pad2 : K ← Wire.rd
  let c2 : Mat K ← pMat
  let rhs : Array K ← pArr
  let v : Array K ← pArr
  let s : K ← Wire.rd
  let i ← pNat; let j ← pNat
  let bandno ← pInt
  let x : K ← Wire.rd
  let a : Band K := ⟨n, m1, m2, c1⟩
  let a2 : Band K := ⟨n, m1, m2, c2⟩
  let run (b : Band K) : List String :=
    [wRes wArr (Band.mulVec b v), wRes Wire.wr (Band.det b), wRes wArr (Band.solve b rhs)]
  let ar : List (Res (Band K)) := [
    Band.neg a, Band.add a a2, Band.sub' a a2, Band.smul a s, Band.sdiv a s,
    Band.add a a2, Band.sub' a a2, Band.smul a s, Band.sdiv a s, Band.addS a s, Band.subS a s,
    Band.fillBand a bandno x]
  let extra : List (Res (Band K)) := [Band.set a i j x, Band.fill a x, Band.resize a (n + i % 2) ((m1 + j) % (n + 1)) m2]
  let parts := [wRes Wire.wr (Band.get a i j)] ++ run a ++ run a2 ++ ar.map (wRes wBand) ++ extra.map (wRes wBand)
  pure (" ".intercalate parts)

/-- history of edits of one banded matrix; after every step the whole object and the product with the ones vector -/
def bandHist : P String := do
  let n ← pNat; let m1 ← pNat; let m2 ← pNat
  let x0 : K ← Wire.rd
  let nops ← pNat
  let mut b : Band K := Band.new n m1 m2 x0
  let mut out := wBand b
  for _ in [0:nops] do
    let op ← tok
    let r : Res (Band K) ← (match op with
      | "resize" => do let a ← pNat; let c ← pNat; let d ← pNat; pure (Band.resize b a c d)
      | "set" => do let i ← pNat; let j ← pNat; let x : K ← Wire.rd; pure (Band.set b i j x)
      | "fill" => do let x : K ← Wire.rd; pure (Band.fill b x)
      | "fillband" => do let k ← pInt; let x : K ← Wire.rd; pure (Band.fillBand b k x)
      | _ => throw s!"unknown banded op {op}" : P (Res (Band K)))
    let o : String := match r with
      | .ok _ => "ok"
      | .error e => "!" ++ toString e
    b := match r with
      | .ok b' => b'
      | .error _ => b
    out := out ++ s!" ; {op} {o} | {wBand b}"
    out := out ++ " | " ++ wRes wArr (Band.mulVec b (Array.replicate b.n (1 : K)))
  pure out

def exec (op : String) : P (Option String) := do
  match op with
  | "band_hist" => let tag ← tok; some <$> byTag tag (fun K _ => bandHist (K := K))
  | "band" => let tag ← tok; some <$> byTag tag (fun K _ => band (K := K))
  | _ => pure none
end DrvBand
end Ohsl
