import Ohsl.Driver.Common
namespace Ohsl
namespace DrvVec
variable {K : Type} [Scalar K]

inductive Ext | q | f | c deriving BEq

/-- one operation of a vector history -/
def applyOp (v : Array K) (op : String) : P (Option (Array K × String)) := do
  let st (r : Res (Array K)) : P (Option (Array K × String)) :=
    match r with
    | .ok v' => pure (some (v', "ok"))
    | .error e => pure (some (v, "!" ++ toString e))
  let val (r : Res String) : P (Option (Array K × String)) := pure (some (v, outcome r))
  match op with
  | "push" => let x ← Wire.rd; st (.ok (Vec.push v x))
  | "pushf" => let x ← Wire.rd; st (.ok (Vec.pushFront v x))
  | "insert" => let p ← pNat; let x ← Wire.rd; st (Vec.insert v p x)
  | "pop" =>
    match Vec.pop v with
    | .ok (x, v') => pure (some (v', "ok " ++ Wire.wr x))
    | .error e => pure (some (v, "!" ++ toString e))
  | "swap" => let i ← pNat; let j ← pNat; st (Vec.swap v i j)
  | "assign" => let x ← Wire.rd; st (.ok (Vec.assign v x))
  | "clear" => st (.ok (Vec.clear v))
  | "find" => let x ← Wire.rd; val ((Vec.find v x).map toString)
  | "add" => let w ← pArr; st (Vec.add v w)
  | "sub" => let w ← pArr; st (Vec.sub v w)
  | "neg" => st (.ok (Vec.neg v))
  | "smul" => let s ← Wire.rd; st (.ok (Vec.smul v s))
  | "sdiv" => let s ← Wire.rd; st (Vec.sdiv v s)
  | "adds" => let s ← Wire.rd; st (.ok (Vec.addS v s))
  | "subs" => let s ← Wire.rd; st (.ok (Vec.subS v s))
  | "muls" => let s ← Wire.rd; st (.ok (Vec.mulS v s))
  | "divs" => let s ← Wire.rd; st (Vec.divS v s)
  | "dot" => let w ← pArr; val ((Vec.dot v w).map Wire.wr)
  | "sumslice" => let a ← pNat; let b ← pNat; val ((Vec.sumSlice v a b).map Wire.wr)
  | "prodslice" => let a ← pNat; let b ← pNat; val ((Vec.productSlice v a b).map Wire.wr)
  | "sum" => val ((Vec.sum v).map Wire.wr)
  | "product" => val ((Vec.product v).map Wire.wr)
  | "abs" => val (.ok (wArr (Vec.abs v)))
  | "norm1" => val (.ok (Wire.wr (Vec.norm1 v)))
  | "index" => let i ← pNat; val ((aget v i).map Wire.wr)
  | "setindex" => let i ← pNat; let x ← Wire.rd; st (aset v i x)
  | "clonemut" => let x ← Wire.rd; st (.ok (Vec.push v x))
  | "sort" => st (.ok (Vec.sort v))
  | "sortdesc" => st (.ok (Vec.sort v).reverse)
  | "ones" => let n ← pNat; st (.ok (Array.replicate n 1))
  | "zeros" => let n ← pNat; st (.ok (Array.replicate n 0))
  | "resize" => let n ← pNat; st (.ok (Vec.resize v n))
  | _ => pure none

def histWith (extra : Array K → String → P (Option (Array K × String))) : P String := do
  let mut v : Array K ← pArr
  let n ← pNat
  let mut out := ""
  for k in [0:n] do
    let op ← tok
    let r ← match (← extra v op) with
      | some r => pure r
      | none => match (← applyOp v op) with
        | some r => pure r
        | none => throw s!"unknown vector op {op}"
    v := r.1
    if k > 0 then out := out ++ " ; "
    out := out ++ op ++ " " ++ r.2 ++ " | " ++ wArr v
  pure out
end DrvVec

namespace DrvVec
def extraF (v : Array Float) (op : String) : P (Option (Array Float × String)) := do
  match op with
  | "norm2" => pure (some (v, "ok " ++ Wire.wr (Vec.norm2 v)))
  | "normp" => let p : Float ← Wire.rd; pure (some (v, outcome ((Vec.normP v p).map Wire.wr)))
  | "norminf" => pure (some (v, outcome ((Vec.normInf v).map Wire.wr)))
  | "lsmul" => let s : Float ← Wire.rd; pure (some (Vec.lsmul s v, "ok"))
  | _ => pure none

def extraC (v : Array (Cx Float)) (op : String) : P (Option (Array (Cx Float) × String)) := do
  match op with
  | "conj" => pure (some (Vec.conj v, "ok"))
  | "real" => pure (some (v, "ok " ++ wArr (Vec.real v)))
  | "norminf" => pure (some (v, outcome ((Vec.normInfC v).map Wire.wr)))
  | _ => pure none

def norms : P String := do
  let v : Array Float ← pArr
  let w : Array Float ← pArr
  let s : Float ← Wire.rd
  let p : Float ← Wire.rd
  let f (x : Array Float) : String :=
    s!"{Wire.wr (Vec.norm1 x)} {Wire.wr (Vec.norm2 x)} {wRes Wire.wr (Vec.normP x p)} {wRes Wire.wr (Vec.normInf x)}"
  pure s!"{f v} {f w} {f (Vec.smul v s)}"

def spaces : P String := do
  let a : Float ← Wire.rd
  let b : Float ← Wire.rd
  let n ← pNat
  let p : Float ← Wire.rd
  pure s!"{wRes wArr (Vec.linspace a b n)} ; {wRes wArr (Vec.powspace a b n p)}"

def exec (op : String) : P (Option String) := do
  match op with
  | "vec_hist" =>
    let tag ← tok
    match tag with
    | "q" => some <$> histWith (K := Rat) (fun _ _ => pure none)
    | "f" => some <$> histWith (K := Float) extraF
    | _ => some <$> histWith (K := Cx Float) extraC
  | "vec_norms" => some <$> norms
  | "vec_spaces" => some <$> spaces
  | _ => pure none
end DrvVec
end Ohsl
