import Ohsl.Driver.Sparse
import Ohsl.Model.KrylovSp
namespace Ohsl
namespace DrvKrylov

/-- the vector operations of `Vector<f64>` in the forms the solvers use, over `Array Float`;
    sizes agree by the entry guards, so the checked operations cannot fail here -/
def vops (s : Sp Float) (n : Nat) : VOps Float (Array Float) where
  add a b := Array.zipWith (· + ·) a b
  sub a b := Array.zipWith (· - ·) a b
  smul v k := v.map (· * k)
  lsmul k v := v.map (k * ·)
  sdiv v k := v.map (· / k)
  dot a b := (Array.zipWith (· * ·) a b).foldl (· + ·) 0
  norm2 v := Vec.norm2 v
  zero := Array.replicate n 0
  A v := match Sp.multiply s v with | .ok r => r | .error _ => #[]
  At v := match Sp.transposeMultiply s v with | .ok r => r | .error _ => #[]

def krylov : P String := do
  let solver ← tok
  let _class ← tok
  let rows ← pNat; let cols ← pNat
  let trips : List (Nat × Nat × Float) ← DrvSp.pTrips
  let b : Array Float ← pArr
  let x0 : Array Float ← pArr
  let maxIter ← pNat
  let tol : Float ← Wire.rd
  let itol ← pNat
  match Sp.fromTriplets rows cols trips with
  | .error e => pure ("!" ++ toString e)
  | .ok s =>
    let m : Sp.Method := match solver with
      | "cg" => .cg | "bicg" => .bicg itol | "bicgstab" => .bicgstab | _ => .qmr
    match Sp.solveIter s m b x0 maxIter tol Vec.norm2 with
    | .error e => pure ("!" ++ toString e)
    | .ok r =>
      if r.ok then pure s!"ok {r.iters} | {wArr r.x}"
      else pure s!"err {Wire.wr r.err} | {wArr r.x}"

/-- the solvers on a storage built from raw arrays (`from_vecs`) -/
def krylovVecs : P String := do
  let solver ← tok
  let rows ← pNat; let cols ← pNat
  let val : Array Float ← pArr
  let ri : Array Nat ← pArr
  let cs : Array Nat ← pArr
  let b : Array Float ← pArr
  let x0 : Array Float ← pArr
  let maxIter ← pNat
  let tol : Float ← Wire.rd
  let itol ← pNat
  match Sp.fromVecs rows cols val ri cs with
  | .error e => pure ("!" ++ toString e)
  | .ok s =>
    let m : Sp.Method := match solver with
      | "cg" => .cg | "bicg" => .bicg itol | "bicgstab" => .bicgstab | _ => .qmr
    match Sp.solveIter s m b x0 maxIter tol Vec.norm2 with
    | .error e => pure ("!" ++ toString e)
    | .ok r =>
      if r.ok then pure s!"ok {r.iters} | {wArr r.x}"
      else pure s!"err {Wire.wr r.err} | {wArr r.x}"

def exec (op : String) : P (Option String) := do
  match op with
  | "krylov" | "krylov9" => some <$> krylov
  | "krylovv" => some <$> krylovVecs
  | _ => pure none
end DrvKrylov
end Ohsl
