import Ohsl.Driver.Common
import Ohsl.Model.Newton
namespace Ohsl

/-- expression language for user functions (see harness/src/expr.rs) -/
inductive Expr (K : Type) where
  | var (i : Nat) | const (c : K)
  | add (a b : Expr K) | sub (a b : Expr K) | mul (a b : Expr K) | div (a b : Expr K)
  | neg (a : Expr K) | sin (a : Expr K) | cos (a : Expr K) | exp (a : Expr K) | abs (a : Expr K)
  deriving Inhabited

/-- the scalar operations an expression is evaluated with -/
structure EvOps (K : Type) where
  add : K → K → K
  sub : K → K → K
  mul : K → K → K
  div : K → K → K
  neg : K → K
  sin : K → K
  cos : K → K
  exp : K → K
  abs : K → K
  zero : K
  one : K
  re : K → Float

def evF : EvOps Float :=
  { add := (· + ·), sub := (· - ·), mul := (· * ·), div := (· / ·), neg := (- ·), sin := Float.sin, cos := Float.cos,
    exp := Float.exp, abs := Float.abs, zero := 0, one := 1, re := id }
def evC : EvOps (Cx Float) :=
  { add := (· + ·), sub := (· - ·), mul := (· * ·), div := Cx.divT, neg := (- ·), sin := Cx.csin, cos := Cx.ccos,
    exp := Cx.cexp, abs := fun z => ⟨Cx.abs z, 0⟩, zero := 0, one := 1, re := (·.re) }

namespace Expr
variable {K : Type}
def eval (o : EvOps K) (x : Array K) : Expr K → K
  | var i => x[i]?.getD o.zero
  | const c => c
  | add a b => o.add (eval o x a) (eval o x b)
  | sub a b => o.sub (eval o x a) (eval o x b)
  | mul a b => o.mul (eval o x a) (eval o x b)
  | div a b => o.div (eval o x a) (eval o x b)
  | neg a => o.neg (eval o x a)
  | sin a => o.sin (eval o x a)
  | cos a => o.cos (eval o x a)
  | exp a => o.exp (eval o x a)
  | abs a => o.abs (eval o x a)
end Expr

partial def pExpr {K} [Wire K] : P (Expr K) := do
  let t ← tok
  match t with
  | "v" => let i ← pNat; pure (.var i)
  | "k" => let c ← Wire.rd; pure (.const c)
  | "+" => let a ← pExpr; let b ← pExpr; pure (.add a b)
  | "-" => let a ← pExpr; let b ← pExpr; pure (.sub a b)
  | "*" => let a ← pExpr; let b ← pExpr; pure (.mul a b)
  | "/" => let a ← pExpr; let b ← pExpr; pure (.div a b)
  | "neg" => let a ← pExpr; pure (.neg a)
  | "sin" => let a ← pExpr; pure (.sin a)
  | "cos" => let a ← pExpr; pure (.cos a)
  | "exp" => let a ← pExpr; pure (.exp a)
  | "abs" => let a ← pExpr; pure (.abs a)
  | _ => throw s!"bad expression token {t}"

/-- vector-valued user function with an optional size-changing extra component -/
structure VFn (K : Type) where
  comps : Array (Expr K)
  ext : Option Float

def pVFn {K} [Wire K] : P (VFn K) := do
  let m ← pNat
  let mut cs : Array (Expr K) := #[]
  for _ in [0:m] do
    cs := cs.push (← pExpr)
  let t ← tok
  if t == "ext" then
    let c : Float ← Wire.rd
    pure ⟨cs, some c⟩
  else pure ⟨cs, none⟩

def VFn.apply {K} (o : EvOps K) (f : VFn K) (x : Array K) : Array K :=
  let r := f.comps.map (Expr.eval o x)
  match f.ext, x[0]? with
  | some c, some x0 => if o.re x0 > c then r.push o.one else r
  | _, _ => r

namespace DrvNewton

def wOut {α} (w : α → String) (o : Newton.Out α) : String := (if o.ok then "ok " else "err ") ++ w o.x

def wTrace {K} [Wire K] (tr : List (Array K)) : String :=
  tr.foldl (fun s p => s ++ " " ++ wArr p) (toString tr.length)

def newtonS : P String := do
  let tag ← tok
  if tag == "f" then
    let guess : Float ← Wire.rd
    let tol : Float ← Wire.rd; let delta : Float ← Wire.rd
    let maxIter ← pNat
    let _fam ← tok
    let _roots : Array Float ← pArr
    let e : Expr Float ← pExpr
    let (o, tr) := Newton.solveScalar (fun x => e.eval evF #[x]) tol delta maxIter guess []
    pure s!"{wOut Wire.wr o} | {tr.length} {wArr tr.toArray}"
  else
    let guess : Cx Float ← Wire.rd
    let tol : Float ← Wire.rd; let delta : Float ← Wire.rd
    let maxIter ← pNat
    let _fam ← tok
    let _roots : Array (Cx Float) ← pArr
    let e : Expr (Cx Float) ← pExpr
    let (o, tr) := Newton.solveCx (fun x => e.eval evC #[x]) tol delta maxIter guess []
    pure s!"{wOut Wire.wr o} | {tr.length} {wArr tr.toArray}"

section Sys
variable {E : Type} [Scalar E]

def sysBody (o : EvOps E) (embed : Float → E) (normInf : Array E → Res Float) : P String := do
  let guess : Array E ← pArr
  let tol : Float ← Wire.rd; let delta : Float ← Wire.rd
  let maxIter ← pNat
  let _fam ← tok
  let _root : Array E ← pArr
  let f : VFn E ← pVFn
  let mode ← tok
  let n := guess.size
  let jac : Array (Expr E) ← (if mode == "exact" then do
      let k ← pNat
      let mut js : Array (Expr E) := #[]
      for _ in [0:k] do
        js := js.push (← pExpr)
      pure js
    else pure #[] : P (Array (Expr E)))
  let jrows := if n > 0 then jac.size / n else 0
  let func := f.apply o
  let jacF (x : Array E) : Res (Mat E × List (Array E)) :=
    if mode == "exact" then
      .ok (⟨(Array.ofFn (n := jrows * n) (fun i => (jac[i.val]?.getD (.const o.zero)).eval o x)), jrows, n⟩, [])
    else Jac.jacobian func x (embed delta)
  match Jac.solveSys func jacF normInf (fun r => decide (r ≤ tol)) maxIter guess [] with
  | .error e => pure ("!" ++ toString e)
  | .ok (out, tr) => pure s!"{wOut wArr out} | {wTrace tr}"

def jacBody (o : EvOps E) (embed : Float → E) : P String := do
  let point : Array E ← pArr
  let delta : Float ← Wire.rd
  let _fam ← tok
  let f : VFn E ← pVFn
  match Jac.jacobian (f.apply o) point (embed delta) with
  | .error e => pure ("!" ++ toString e)
  | .ok (j, tr) => pure s!"{wMat j} | {wTrace tr}"
end Sys

def exec (op : String) : P (Option String) := do
  match op with
  | "newton_s" => some <$> newtonS
  | "newton_v" =>
    let tag ← tok
    if tag == "f" then some <$> sysBody (E := Float) evF id Vec.normInf
    else some <$> sysBody (E := Cx Float) evC (fun d => ⟨d, 0⟩) Vec.normInfC
  | "jacobian" =>
    let tag ← tok
    if tag == "f" then some <$> jacBody (E := Float) evF id
    else some <$> jacBody (E := Cx Float) evC (fun d => ⟨d, 0⟩)
  | _ => pure none
end DrvNewton
end Ohsl
