import Ohsl.Driver.Common
namespace Ohsl
namespace DrvCx

section
variable {K : Type} [Add K] [Sub K] [Mul K] [Neg K] [Zero K] [One K] [BEq K] [ScalarExt K] [Wire K]

def cxAll (a b : Cx K) (r : K) : String :=
  let w : Cx K → String := Wire.wr
  let rs : List (Res (Cx K)) := [
    pure (a + b), pure (a - b), pure (a * b), Cx.div a b,
    pure (Cx.addAssign a b), pure (Cx.subAssign a b), pure (Cx.mulAssign a b), Cx.divAssign a b,
    pure (Cx.addR a r), pure (Cx.subR a r), pure (Cx.mulR a r), Cx.divR a r,
    pure (Cx.addAssignR a r), pure (Cx.subAssignR a r), pure (Cx.mulAssignR a r), Cx.divAssignR a r,
    pure (-a), pure (Cx.conj a), pure (a + 0), pure (a * 1)]
  let s := " ".intercalate (rs.map (wRes w))
  let c := Cx.cmp a b
  s!"{s} {Wire.wr (Cx.absSqr a)} {wBool (a == b)} {c} {wBool (a != b)} {wBool (c == 0)} {wBool (c == 0 || c == 1)} {wBool (c == 2)} {wBool (c == 2 || c == 1)}"

def execCx (op : String) : P (Option String) := do
  match op with
  | "cx_all" =>
    let a : Cx K ← Wire.rd; let b : Cx K ← Wire.rd; let r : K ← Wire.rd
    pure (some (cxAll a b r))
  | "cx_ord" =>
    let a : Cx K ← Wire.rd; let b : Cx K ← Wire.rd; let c : Cx K ← Wire.rd
    pure (some s!"{Cx.cmp a b} {Cx.cmp b c} {Cx.cmp a c}")
  | _ => pure none
end

/-- extra outputs of `cx_all` that exist only for `Complex<f64>` -/
def cxAllF (a : Cx Float) (r : Float) : String :=
  s!"{Wire.wr (Cx.mulR a r)} {Wire.wr (Cx.abs a)} {Wire.wr (Cx.arg a)}"

def exec (op : String) : P (Option String) := do
  match op with
  | "cx_all" | "cx_ord" =>
    let tag ← tok
    if tag == "q" then execCx (K := Rat) op
    else
      let saved ← get
      match (← execCx (K := Float) op) with
      | some s =>
        if op == "cx_all" then
          set saved
          let a : Cx Float ← Wire.rd; let _b : Cx Float ← Wire.rd; let r : Float ← Wire.rd
          pure (some s!"{s} {cxAllF a r}")
        else pure (some s)
      | none => pure none
  | _ => pure none

end DrvCx
end Ohsl
