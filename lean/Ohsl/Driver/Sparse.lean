import Ohsl.Driver.Common
import Ohsl.Model.Sparse
namespace Ohsl
namespace DrvSp
variable {K : Type} [Scalar K]

def dump (s : Sp K) : String :=
  s!"{s.rows} {s.cols} {s.nonzero} {wArr s.val} {wArr s.rowIndex} {wArr s.colStart}"

def wTrips (ts : List (Nat × Nat × K)) : String :=
  ts.foldl (fun acc t => acc ++ s!" {t.1} {t.2.1} {Wire.wr t.2.2}") (toString ts.length)

def wOpt (o : Option K) : String := match o with | some v => "some " ++ Wire.wr v | none => "none"

def views (s : Sp K) (gi gj : Nat) : String :=
  let back : Res (Array Nat) := do
    let ci ← Sp.colIndex s
    Sp.colStartFromIndex s.cols s.nonzero ci
  s!"{wRes wOpt (Sp.get s gi gj)} {wRes wTrips (Sp.toTriplets s)} {wRes wMat (Sp.toDense s)} {wRes wArr (Sp.colIndex s)} {wRes wArr back}"

def pTrips : P (List (Nat × Nat × K)) := do
  let n ← pNat
  let mut l : Array (Nat × Nat × K) := #[]
  for _ in [0:n] do
    let r ← pNat; let c ← pNat; let v ← Wire.rd
    l := l.push (r, c, v)
  pure l.toList

def opsLoop (s0 : Sp K) (nops : Nat) (out0 : String) : P String := do
  let mut s := s0
  let mut out := out0
  for _ in [0:nops] do
    let op ← tok
    let (s', o) ← (match op with
      | "insert" => do
        let i ← pNat; let j ← pNat; let v : K ← Wire.rd
        match Sp.insert s i j v with
        | .ok s' => pure (s', "ok")
        | .error e => pure (s, "!" ++ toString e)
      | "scale" => do
        let a : K ← Wire.rd
        match Sp.scale s a with
        | .ok s' => pure (s', "ok")
        | .error e => pure (s, "!" ++ toString e)
      | "transpose" =>
        match Sp.transpose s with
        | .ok s' => pure (s', "ok")
        | .error e => pure (s, "!" ++ toString e)
      | "get" => do
        let i ← pNat; let j ← pNat
        pure (s, outcome ((Sp.get s i j).map wOpt))
      | "prod" => do
        let x : Array K ← pArr; let y : Array K ← pArr
        let w (r : Res (Array K)) : String := match r with | .ok v => wArr v | .error e => "!" ++ toString e
        pure (s, s!"ok {w (Sp.multiply s x)} / {w (Sp.transposeMultiply s y)}")
      | _ => throw s!"unknown sparse op {op}" : P (Sp K × String))
    s := s'
    out := out ++ s!" ; {op} {o} | {dump s} | {views s (s.rows / 2) (s.cols / 2)}"
  pure out

def hist : P String := do
  let rows ← pNat; let cols ← pNat
  let trips : List (Nat × Nat × K) ← pTrips
  let nops ← pNat
  match Sp.fromTriplets rows cols trips with
  | .error e => pure ("!" ++ toString e)
  | .ok s0 => opsLoop s0 nops s!"{dump s0} | {views s0 (rows / 2) (cols / 2)}"

/-- raw compressed-column arrays followed by a history of operations -/
def vhist : P String := do
  let rows ← pNat; let cols ← pNat
  let val : Array K ← pArr
  let ri : Array Nat ← pArr
  let cs : Array Nat ← pArr
  let nops ← pNat
  match Sp.fromVecs rows cols val ri cs with
  | .error e => pure ("!" ++ toString e)
  | .ok s0 => opsLoop s0 nops s!"{dump s0} | {views s0 (rows / 2) (cols / 2)}"

def fromVecs : P String := do
  let rows ← pNat; let cols ← pNat
  let val : Array K ← pArr
  let ri : Array Nat ← pArr
  let cs : Array Nat ← pArr
  match Sp.fromVecs rows cols val ri cs with
  | .error e => pure ("!" ++ toString e)
  | .ok s => pure s!"{dump s} | {views s (rows / 2) (cols / 2)}"

def products : P String := do
  let rows ← pNat; let cols ← pNat
  let trips : List (Nat × Nat × K) ← pTrips
  let x : Array K ← pArr
  let y : Array K ← pArr
  let a : K ← Wire.rd
  match Sp.fromTriplets rows cols trips with
  | .error e => pure ("!" ++ toString e)
  | .ok s =>
    let ax := Sp.multiply s x
    let aty := Sp.transposeMultiply s y
    let aty2 := do let t ← Sp.transpose s; Sp.multiply t y
    let sax := do
      let t ← Sp.transpose s
      let tt ← Sp.transpose t
      let z ← Sp.scale tt a
      Sp.multiply z x
    pure s!"{wRes wArr ax} {wRes wArr aty} {wRes wArr aty2} {wRes wArr sax}"

def exec (op : String) : P (Option String) := do
  let two (tag : String) (f : (K : Type) → [Scalar K] → P String) : P String :=
    if tag == "q" then f Rat else f Float
  match op with
  | "sp_hist" => let tag ← tok; some <$> two tag (fun K _ => hist (K := K))
  | "sp_vhist" => let tag ← tok; some <$> two tag (fun K _ => vhist (K := K))
  | "sp_vecs" => let tag ← tok; some <$> two tag (fun K _ => fromVecs (K := K))
  | "sp_prod" => let tag ← tok; some <$> two tag (fun K _ => products (K := K))
  | _ => pure none
end DrvSp
end Ohsl
