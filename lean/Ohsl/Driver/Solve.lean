import Ohsl.Driver.Common
namespace Ohsl
namespace DrvSolve
variable {K : Type} [Scalar K]

def solve : P String := do
  let a : Mat K ← pMat
  let b : Array K ← pArr
  pure s!"basic {wRes wArr (Mat.solveBasic a b)} lu {wRes wArr (Mat.solveLU a b)}"

def detinv : P String := do
  let a : Mat K ← pMat
  let lu := match Mat.luDecomp a with
    | .ok s => s!"{s.pivots} {wMat s.lu} {wMat s.perm}"
    | .error e => "!" ++ toString e
  pure s!"det {wRes Wire.wr (Mat.determinant a)} inv {wRes wMat (Mat.inverse a)} lu {lu}"

def exec (op : String) : P (Option String) := do
  match op with
  | "solve" | "solve_ns" => let tag ← tok; some <$> byTag tag (fun K _ => solve (K := K))
  | "detinv" => let tag ← tok; some <$> byTag tag (fun K _ => detinv (K := K))
  | _ => pure none
end DrvSolve
end Ohsl
