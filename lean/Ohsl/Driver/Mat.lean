import Ohsl.Driver.Common
namespace Ohsl
namespace DrvMat
open Mat

variable {K : Type} [Scalar K]

/-- one operation of a matrix history: new state (unchanged on a panic) and the outcome text -/
def applyOp (m : Mat K) (op : String) : P (Mat K × String) := do
  let st (r : Res (Mat K)) : P (Mat K × String) :=
    match r with
    | .ok m' => pure (m', "ok")
    | .error e => pure (m, "!" ++ toString e)
  let val (r : Res (Array K)) : P (Mat K × String) :=
    pure (m, outcome (r.map wArr))
  match op with
  | "add" => let b ← pMat; st (Mat.add m b)
  | "sub" => let b ← pMat; st (Mat.sub m b)
  | "neg" => st (Mat.neg m)
  | "smul" => let s ← Wire.rd; st (Mat.smul m s)
  | "sdiv" => let s ← Wire.rd; st (Mat.sdiv m s)
  | "adds" => let s ← Wire.rd; st (Mat.addS m s)
  | "subs" => let s ← Wire.rd; st (Mat.subS m s)
  | "mul" => let b ← pMat; st (Mat.mul m b)
  | "mulv" => let v ← pArr; val (Mat.mulVec m v)
  | "tr" => st (Mat.transpose m)
  | "trip" => st (Mat.transposeInPlace m)
  | "getrow" => let i ← pNat; val (Mat.getRow m i)
  | "getcol" => let i ← pNat; val (Mat.getCol m i)
  | "setrow" => let i ← pNat; let v ← pArr; st (Mat.setRow m i v)
  | "setcol" => let i ← pNat; let v ← pArr; st (Mat.setCol m i v)
  | "swaprows" => let i ← pNat; let j ← pNat; st (Mat.swapRows m i j)
  | "delrow" => let i ← pNat; st (Mat.deleteRow m i)
  | "fill" => let x ← Wire.rd; st (Mat.fill m x)
  | "filldiag" => let x ← Wire.rd; st (Mat.fillDiag m x)
  | "fillband" => let o ← pInt; let x ← Wire.rd; st (Mat.fillBand m o x)
  | "filltri" => let a ← Wire.rd; let b ← Wire.rd; let c ← Wire.rd; st (Mat.fillTridiag m a b c)
  | "fillrow" => let i ← pNat; let x ← Wire.rd; st (Mat.fillRow m i x)
  | "fillcol" => let i ← pNat; let x ← Wire.rd; st (Mat.fillCol m i x)
  | "resize" => let r ← pNat; let c ← pNat; st (Mat.resize m r c)
  | "eye" => let n ← pNat; st (Mat.eye n)
  | "new" => let r ← pNat; let c ← pNat; let x ← Wire.rd; st (.ok (Mat.new r c x))
  | "clear" => st (.ok (Mat.clear m))
  | "empty" => st (.ok Mat.empty)
  | "swapelem" => let i1 ← pNat; let j1 ← pNat; let i2 ← pNat; let j2 ← pNat; st (Mat.swapElem m i1 j1 i2 j2)
  | "clonemut" => let x ← Wire.rd; st (Mat.fillDiag m x)
  | _ => throw s!"unknown matrix op {op}"

def hist : P String := do
  let mut m : Mat K ← pMat
  let n ← pNat
  let mut out := ""
  for k in [0:n] do
    let op ← tok
    if k > 0 then out := out ++ " ; "
    if op == "norms" then
      let p : Float ← Wire.rd
      let o := match (Scalar.normsView (K := K)) with | some f => f m p | none => "n/a"
      out := out ++ op ++ " " ++ o ++ " | " ++ wMat m
    else
      let (m', o) ← applyOp m op
      m := m'
      out := out ++ op ++ " " ++ o ++ " | " ++ wMat m
  pure out

end DrvMat

namespace DrvMat
def norms : P String := do
  let m : Mat Float ← pMat
  let p : Float ← Wire.rd
  let w (r : Res Float) : String := wRes Wire.wr r
  let lm := wRes wMat (Mat.lsmul p m)
  pure s!"{w (Mat.norm1 m)} {w (Mat.normInf m)} {w (Mat.normP m p)} {w (Mat.normFrob m)} {w (Mat.normMax m)} {lm}"

def exec (op : String) : P (Option String) := do
  match op with
  | "mat_hist" => let tag ← tok; some <$> byTag tag (fun K _ => hist (K := K))
  | "mat_norms" => some <$> norms
  | _ => pure none
end DrvMat
end Ohsl
