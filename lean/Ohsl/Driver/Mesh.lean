import Ohsl.Driver.Newton
import Ohsl.Model.Fmt
namespace Ohsl
namespace DrvMesh

def dump1 {T X} [Wire T] [Wire X] (m : Mesh1 T X) : String :=
  m.vars.foldl (fun s v => s ++ " " ++ wArr v) s!"{m.nvars} {wArr m.nodes}"

def dump2 {T X} [Wire T] (m : Mesh2 T X) : String :=
  (m.vars.extract 0 (m.nx * m.ny)).foldl (fun s v => s ++ " " ++ wArr v) s!"{m.nvars} {m.nx} {m.ny}"

def mesh1Hist : P String := do
  let nodes : Array Rat ← pArr
  let nvars ← pNat
  let nops ← pNat
  let mut m : Mesh1 Rat Rat := Mesh1.new nodes nvars
  let mut out := dump1 m
  for _ in [0:nops] do
    let op ← tok
    let (m', o) ← (match op with
      | "set" => do
        let i ← pNat; let v : Array Rat ← pArr
        match Mesh1.setNodesVars m i v with
        | .ok m' => pure (m', "ok")
        | .error e => pure (m, "!" ++ toString e)
      | "get" => do let i ← pNat; pure (m, outcome ((Mesh1.getNodesVars m i).map wArr))
      | "index" => do let i ← pNat; pure (m, outcome ((Mesh1.index m i).map wArr))
      | "setvar" => do
        let i ← pNat; let k ← pNat; let x : Rat ← Wire.rd
        match Mesh1.setVar m i k x with
        | .ok m' => pure (m', "ok")
        | .error e => pure (m, "!" ++ toString e)
      | "coord" => do let i ← pNat; pure (m, outcome ((Mesh1.coord m i).map Wire.wr))
      | _ => throw s!"unknown mesh op {op}" : P (Mesh1 Rat Rat × String))
    m := m'
    out := out ++ s!" ; {op} {o} | {dump1 m}"
  pure out

def mesh2Hist : P String := do
  let xn : Array Float ← pArr
  let yn : Array Float ← pArr
  let nvars ← pNat
  let nops ← pNat
  let mut m : Mesh2 Rat Float := Mesh2.new xn yn nvars
  let mut out := dump2 m
  for _ in [0:nops] do
    let op ← tok
    let st (r : Res (Mesh2 Rat Float)) : P (Mesh2 Rat Float × String) :=
      match r with
      | .ok m' => pure (m', "ok")
      | .error e => pure (m, "!" ++ toString e)
    let (m', o) ← (match op with
      | "set" => do let i ← pNat; let j ← pNat; let v : Array Rat ← pArr; st (Mesh2.setNodesVars m i j v)
      | "get" => do let i ← pNat; let j ← pNat; pure (m, outcome ((Mesh2.getNodesVars m i j).map wArr))
      | "index" => do let i ← pNat; let j ← pNat; pure (m, outcome ((Mesh2.index m i j).map wArr))
      | "setvar" => do let i ← pNat; let j ← pNat; let k ← pNat; let x : Rat ← Wire.rd; st (Mesh2.setVar m i j k x)
      | "assign" => do let x : Rat ← Wire.rd; st (Mesh2.assign m x)
      | "xsec" => do let i ← pNat; pure (m, outcome ((Mesh2.crossSectionX m i).map dump1))
      | "ysec" => do let j ← pNat; pure (m, outcome ((Mesh2.crossSectionY m j).map dump1))
      | "varmat" => do let k ← pNat; pure (m, outcome ((Mesh2.varAsMatrix m k).map wMat))
      | "coord" => do
        let i ← pNat; let j ← pNat
        pure (m, outcome ((Mesh2.coord m i j).map (fun p => s!"{Wire.wr p.1} {Wire.wr p.2}")))
      | _ => throw s!"unknown mesh2 op {op}" : P (Mesh2 Rat Float × String))
    m := m'
    out := out ++ s!" ; {op} {o} | {dump2 m}"
  pure out

def mesh1Num : P String := do
  let nodes : Array Float ← pArr
  let nvars ← pNat
  let data : Array Float ← pArr
  let xs : Array Float ← pArr
  let prec ← pNat
  let _kind ← tok
  let m0 : Mesh1 Float Float := Mesh1.new nodes nvars
  let m : Mesh1 Float Float := { m0 with vars := Array.ofFn (n := nodes.size) (fun i => data.extract (i.val * nvars) ((i.val + 1) * nvars)) }
  let mut out := ""
  for x in xs do
    out := out ++ wRes wArr (Mesh1.interpolate m x) ++ " "
  for q in [0:nvars + 1] do
    out := out ++ wRes Wire.wr (Mesh1.trapezium m q) ++ " "
  let text := Fmt.output m prec
  let m2 := Fmt.read (Mesh1.new (#[0.0] : Array Float) nvars) text
  out := out ++ dump1 m2
  -- the same text read into a larger receiver that already holds data
  let nn := nodes.size
  let r0 : Mesh1 Float Float := Mesh1.new ((Array.range (nn + 2)).map (fun i => Float.ofNat i)) nvars
  let r1 : Mesh1 Float Float := { r0 with vars := Array.replicate (nn + 2) (Array.replicate nvars 7.0) }
  let mut m3 := Fmt.read r1 text
  out := out ++ " | " ++ dump1 m3
  for d in [0, 1] do
    out := out ++ s!" get{d} " ++ wRes wArr (Mesh1.getNodesVars m3 (nn + d))
    match Mesh1.setNodesVars m3 (nn + d) (Array.replicate nvars 1.0) with
    | .ok m' => m3 := m'; out := out ++ s!" set{d} ok"
    | .error e => out := out ++ s!" set{d} !{e}"
  pure out

def mesh2Num : P String := do
  let xn : Array Float ← pArr
  let yn : Array Float ← pArr
  let nvars ← pNat
  let _kind ← tok
  let mut m : Mesh2 Float Float := Mesh2.new xn yn nvars
  let mut out := ""
  for q in [0:nvars] do
    let e : Expr Float ← pExpr
    match Mesh2.apply m (fun x y => e.eval evF #[x, y]) q with
    | .ok m' => m := m'
    | .error err => out := out ++ s!"!{err} "
  out := out ++ dump2 m
  for q in [0:nvars] do
    out := out ++ s!" {wRes Wire.wr (Mesh2.trapezium m q)} {wRes Wire.wr (Mesh2.squareTrapezium m q)}"
  let prec := 1 + (m.nx + 2 * m.ny + nvars) % 6
  let enc (s : String) : String := if s.isEmpty then "-" else (s.replace " " ",").replace "\n" "/"
  out := out ++ s!" xn {wArr m.xnodes} yn {wArr m.ynodes}"
  out := out ++ s!" file {prec} {wRes enc (Fmt.output2 m prec)} filevar {wRes enc (Fmt.outputVar2 m 0 prec)}"
  pure out

/-- views of an f64 1-D mesh after every step of a history: quadrature of every variable (and of one beyond), interpolation at `xs` -/
def views1 (m : Mesh1 Float Float) (xs : Array Float) : String := Id.run do
  let mut out := ""
  for q in [0:m.nvars + 1] do
    out := out ++ " " ++ wRes Wire.wr (Mesh1.trapezium m q)
  for x in xs do
    out := out ++ " " ++ wRes wArr (Mesh1.interpolate m x)
  pure out

def mesh1FHist : P String := do
  let nodes : Array Float ← pArr
  let nvars ← pNat
  let xs : Array Float ← pArr
  let nops ← pNat
  let mut m : Mesh1 Float Float := Mesh1.new nodes nvars
  let mut out := dump1 m ++ " ~" ++ views1 m xs
  for _ in [0:nops] do
    let op ← tok
    let st (r : Res (Mesh1 Float Float)) : P (Mesh1 Float Float × String) :=
      match r with
      | .ok m' => pure (m', "ok")
      | .error e => pure (m, "!" ++ toString e)
    let (m', o) ← (match op with
      | "set" => do let i ← pNat; let v : Array Float ← pArr; st (Mesh1.setNodesVars m i v)
      | "setvar" => do let i ← pNat; let k ← pNat; let x : Float ← Wire.rd; st (Mesh1.setVar m i k x)
      | "reread" => do let prec ← pNat; pure (Fmt.read m (Fmt.output m prec), "ok")
      | _ => throw s!"unknown mesh1 f-op {op}" : P (Mesh1 Float Float × String))
    m := m'
    out := out ++ s!" ; {op} {o} | {dump1 m} ~{views1 m xs}"
  pure out

def views2 (m : Mesh2 Float Float) : String := Id.run do
  let mut out := ""
  for q in [0:m.nvars] do
    out := out ++ s!" {wRes Wire.wr (Mesh2.trapezium m q)} {wRes Wire.wr (Mesh2.squareTrapezium m q)}"
  pure out

def mesh2FHist : P String := do
  let xn : Array Float ← pArr
  let yn : Array Float ← pArr
  let nvars ← pNat
  let nops ← pNat
  let mut m : Mesh2 Float Float := Mesh2.new xn yn nvars
  let mut out := dump2 m ++ " ~" ++ views2 m
  for _ in [0:nops] do
    let op ← tok
    let st (r : Res (Mesh2 Float Float)) : P (Mesh2 Float Float × String) :=
      match r with
      | .ok m' => pure (m', "ok")
      | .error e => pure (m, "!" ++ toString e)
    let (m', o) ← (match op with
      | "set" => do let i ← pNat; let j ← pNat; let v : Array Float ← pArr; st (Mesh2.setNodesVars m i j v)
      | "setvar" => do let i ← pNat; let j ← pNat; let k ← pNat; let x : Float ← Wire.rd; st (Mesh2.setVar m i j k x)
      | "assign" => do let x : Float ← Wire.rd; st (Mesh2.assign m x)
      | "xtrap" => do
        let i ← pNat; let q ← pNat
        pure (m, outcome (((Mesh2.crossSectionX m i).bind (fun s => Mesh1.trapezium s q)).map Wire.wr))
      | _ => throw s!"unknown mesh2 f-op {op}" : P (Mesh2 Float Float × String))
    m := m'
    out := out ++ s!" ; {op} {o} | {dump2 m} ~{views2 m}"
  pure out

def exec (op : String) : P (Option String) := do
  match op with
  | "mesh1_hist" => some <$> mesh1Hist
  | "mesh2_hist" => some <$> mesh2Hist
  | "mesh1_num" => some <$> mesh1Num
  | "mesh2_num" => some <$> mesh2Num
  | "mesh1_fhist" => some <$> mesh1FHist
  | "mesh2_fhist" => some <$> mesh2FHist
  | _ => pure none
end DrvMesh
end Ohsl
