import Ohsl.Driver.Common
import Ohsl.Model.Roots
namespace Ohsl
namespace DrvRoots

def roots : P String := do
  let tag ← tok
  let _kind ← tok
  let refine ← pNat
  let r : Res (Array (Cx Float)) ←
    (if tag == "f" then do
      let c : Array Float ← pArr
      pure (Roots.rootsReal c (refine == 1))
    else do
      let c : Array (Cx Float) ← pArr
      pure (Roots.polySolve c (refine == 1)) : P (Res (Array (Cx Float))))
  let _known : Array (Cx Float) ← pArr
  pure (wRes wArr r)

def exec (op : String) : P (Option String) := do
  match op with
  | "roots" => some <$> roots
  | _ => pure none
end DrvRoots
end Ohsl
