/- shared helpers of the driver executors -/
import Ohsl.Model.Wire
import Ohsl.Model.Solve
namespace Ohsl

/-- the scalar-class bundle every generic executor needs -/
class Scalar (K : Type) extends Add K, Sub K, Mul K, Neg K, Zero K, One K, BEq K, ScalarExt K, Wire K where
  /-- the five matrix norms (`Matrix<f64>` only) as a read-only view inside histories -/
  normsView : Option (Mat K → Float → String) := none

instance : Scalar Rat := {}
instance : Scalar Float := { normsView := some (fun m p =>
  let w (r : Res Float) : String := match r with | .ok x => Wire.wr x | .error e => "!" ++ toString e
  s!"{w (Mat.norm1 m)} {w (Mat.normInf m)} {w (Mat.normP m p)} {w (Mat.normFrob m)} {w (Mat.normMax m)}") }
instance : Scalar (Cx Float) := {}

def pMat {K} [Wire K] : P (Mat K) := do
  let r ← pNat; let c ← pNat
  let mut a : Array K := Array.mkEmpty (r * c)
  for _ in [0:r * c] do
    a := a.push (← Wire.rd)
  pure ⟨a, r, c⟩

def wMat {K} [Wire K] (m : Mat K) : String :=
  (m.data.extract 0 (m.rows * m.cols)).foldl (fun s x => s ++ " " ++ Wire.wr x) s!"{m.rows} {m.cols}"

/-- `ok`, `ok <values>` or `!class` -/
def outcome (r : Res String) : String :=
  match r with
  | .ok s => if s.isEmpty then "ok" else "ok " ++ s
  | .error e => "!" ++ toString e

/-- run `f` at the scalar type named by `tag` -/
def byTag (tag : String) (f : (K : Type) → [Scalar K] → P String) : P String :=
  match tag with
  | "q" => f Rat
  | "f" => f Float
  | "c" => f (Cx Float)
  | _ => throw s!"bad tag {tag}"

end Ohsl
