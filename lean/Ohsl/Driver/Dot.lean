import Ohsl.Driver.Common
import Ohsl.Model.Dot
namespace Ohsl
namespace DrvDot
def dot : P String := do
  let _wreq ← pNat
  let w ← pNat
  let a : Array Float ← pArr
  let b : Array Float ← pArr
  let _kind ← tok
  pure (wRes Wire.wr (Dot.dotThreaded w a b))
def exec (op : String) : P (Option String) := do
  match op with
  | "dotf" => some <$> dot
  | _ => pure none
end DrvDot
end Ohsl
