import Ohsl.Driver.Common
import Ohsl.Model.CxFun
namespace Ohsl
namespace DrvCxFun
open Cx

def cxfun : P String := do
  let _kind ← tok
  let z : Cx Float ← Wire.rd
  let w : Cx Float ← Wire.rd
  let vals : List (Cx Float) := [
    csqrt z, cpow z w, cpowf z w.re, cexp z, cln z, clog z w, polar (Cx.abs z) (Cx.arg z),
    csin z, ccos z, ctan z, csec z, ccsc z, ccot z,
    casin z, cacos z, catan z, casec z, cacsc z, cacot z,
    csinh z, ccosh z, ctanh z, csech z, ccsch z, ccoth z,
    casinh z, cacosh z, catanh z, casech z, cacsch z, cacoth z,
    Cx.conj z, ⟨Cx.abs z, Cx.arg z⟩, ⟨Cx.absSqr z, 0⟩]
  pure (" ".intercalate (vals.map Wire.wr))

def exec (op : String) : P (Option String) := do
  match op with
  | "cxfun" => some <$> cxfun
  | _ => pure none
end DrvCxFun
end Ohsl
