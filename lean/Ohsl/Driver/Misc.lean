import Ohsl.Driver.Band
import Ohsl.Driver.Tri
namespace Ohsl
namespace DrvMisc

def bandOf : P (Band Rat) := do
  let n ← pNat; let m1 ← pNat; let m2 ← pNat
  let v : Rat ← Wire.rd
  pure (Band.new n m1 m2 v)

def bandMis : P String := do
  let a ← bandOf
  let b ← bandOf
  let rhs : Array Rat ← pArr
  let bandno ← pInt
  let rs : List (Res (Band Rat)) := [Band.add a b, Band.sub' a b, Band.add a b, Band.sub' a b,
    Band.add a b, Band.sub' a b, Band.add a b, Band.sub' a b]
  let parts := rs.map (wRes DrvBand.wBand) ++
    [wRes wArr (Band.solve a rhs), wRes wArr (Band.mulVec a rhs),
     wRes (fun (z : Band Rat) => wMat z.compact) (Band.fillBand a bandno 9)]
  pure (" ".intercalate parts)

def triMis : P String := do
  let n ← pNat; let n2 ← pNat
  let rhs : Array Rat ← pArr
  let i ← pNat; let j ← pNat
  let mk (n : Nat) (s : Int) : Res (Tri Rat) := do
    let n1 ← usub n 1
    Tri.withVecs (Array.replicate n1 (s : Rat)) (Array.replicate n ((s + 3 : Int) : Rat)) (Array.replicate n1 ((s + 1 : Int) : Rat))
  match mk n 1, mk n2 2 with
  | .ok a, .ok b =>
    let parts := [wRes DrvTri.wTri (Tri.add a b), wRes DrvTri.wTri (Tri.sub' a b),
      wRes wArr (Tri.solve a rhs), wRes wArr (Tri.mulVec a rhs), wRes Wire.wr (Tri.get a i j)]
    pure (" ".intercalate parts)
  | _, _ => throw "tri_mis: bad sizes"

def exec (op : String) : P (Option String) := do
  match op with
  | "band_mis" => some <$> bandMis
  | "tri_mis" => some <$> triMis
  | _ => pure none
end DrvMisc
end Ohsl
