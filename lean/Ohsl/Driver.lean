/-
  Ohsl.Driver — `ohsl-model`: reads request lines on stdin, runs the model at the scalar
  type named by the line's tag (q = Rat, f = Float, c = Cx Float) and prints one canonical
  answer per line.  The output is diffed byte-wise with the Rust harness's impl-out.
-/
import Ohsl.Driver.Cx
import Ohsl.Driver.Mat
import Ohsl.Driver.Solve
import Ohsl.Driver.Vec
import Ohsl.Driver.Poly
import Ohsl.Driver.Tri
import Ohsl.Driver.Band
import Ohsl.Driver.Sparse
import Ohsl.Driver.Krylov
import Ohsl.Driver.Roots
import Ohsl.Driver.CxFun
import Ohsl.Driver.Dot
import Ohsl.Driver.Newton
import Ohsl.Driver.Mesh
import Ohsl.Driver.Misc
namespace Ohsl

def executors : List (String → P (Option String)) := [DrvCx.exec, DrvMat.exec, DrvSolve.exec, DrvVec.exec, DrvPoly.exec, DrvTri.exec, DrvBand.exec, DrvSp.exec, DrvKrylov.exec, DrvRoots.exec, DrvCxFun.exec, DrvDot.exec, DrvNewton.exec, DrvMesh.exec, DrvMisc.exec]

def exec (op : String) : P String := do
  for e in executors do
    let saved ← get
    match (← e op) with
    | some s => return s
    | none => set saved
  throw s!"unknown op {op}"

def handleLine (line : String) : String :=
  match line.trimAscii.toString.splitOn " " |>.filter (· ≠ "") with
  | id :: op :: rest =>
    match (exec op).run rest with
    | .ok (s, _) => s!"{id} {s}"
    | .error e => s!"{id} MODEL-ERROR {e}"
  | _ => "MODEL-ERROR malformed line"

partial def loop (hin : IO.FS.Stream) (hout : IO.FS.Stream) : IO Unit := do
  let line ← hin.getLine
  if line.isEmpty then return ()
  let l := line.trimAscii.toString
  if l.isEmpty || l.startsWith "#" then loop hin hout
  else
    hout.putStrLn (handleLine l)
    loop hin hout

end Ohsl

def main : IO Unit := do
  let hin ← IO.getStdin
  let hout ← IO.getStdout
  Ohsl.loop hin hout
