import Ohsl.Model.Basic
import Ohsl.Model.Cx
import Ohsl.Model.Inst
import Ohsl.Model.Wire
