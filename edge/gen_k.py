import struct, itertools
def h(x):
    if x != x: return 'nan'
    return '%016x' % struct.unpack('>Q', struct.pack('>d', x))[0]
def vec(v): return ' '.join([str(len(v))]+[h(x) for x in v])
def trips(t): return ' '.join([str(len(t))]+['%d %d %s'%(r,c,h(v)) for r,c,v in t])
lines=[]
def case(rows, cols, t, b, x, mi, tol, itol=1, solvers=('cg','bicg','bicgstab','qmr')):
    for s in solvers:
        lines.append('K.%d krylov %s bad %d %d %s %s %s %d %s %d' % (len(lines), s, rows, cols, trips(t), vec(b), vec(x), mi, h(tol), itol))
nan=float('nan'); inf=float('inf')
# n=0
for tol in [1e-8, nan, -1.0, 0.0]:
    for mi in [0,3]:
        case(0,0,[],[],[],mi,tol); case(0,0,[],[],[],mi,tol,2,('bicg',))
spd=[(0,0,4.0),(0,1,1.0),(1,0,1.0),(1,1,3.0)]
ns=[(0,0,4.0),(0,1,-2.0),(1,0,1.0),(1,1,3.0)]
for A in [spd, ns]:
  for tol in [0.0, nan, -1.0, 1e-8, inf]:
    for mi in [0,1,2,50]:
      for b in [[1.0,2.0],[0.0,0.0],[-0.0,-0.0],[nan,1.0],[inf,1.0],[1e200,1e200],[1e-200,1e-200],[5e-324,0.0]]:
        for x in [[0.0,0.0],[1.0,-1.0],[-0.0,-0.0]]:
          case(2,2,A,b,x,mi,tol); case(2,2,A,b,x,mi,tol,2,('bicg',))
# duplicates, explicit zeros, zero matrix
case(2,2,[(0,0,1.0),(0,0,3.0),(1,1,2.0)],[1.0,1.0],[0.0,0.0],20,1e-10)
case(2,2,[(0,0,0.0),(1,1,2.0)],[1.0,1.0],[0.0,0.0],20,1e-10)
case(3,3,[],[1.0,1.0,2.0],[0.0,0.0,0.0],5,1e-10)
case(3,3,[],[0.0,0.0,0.0],[0.0,0.0,0.0],5,1e-10)
case(1,1,[(0,0,0.0)],[1.0],[0.0],5,1e-10)
case(1,1,[(0,0,-2.0)],[1.0],[3.0],5,1e-10)
case(1,1,[(0,0,nan)],[1.0],[3.0],5,1e-10)
# bad itol with bad sizes; bad triplets
case(2,2,spd,[1.0],[0.0,0.0],5,1e-8,0)
case(2,3,spd,[1.0,1.0],[0.0,0.0],5,1e-8,7)
case(2,2,spd,[1.0,1.0],[0.0,0.0],5,1e-8,7)
case(2,2,spd,[1.0,1.0],[0.0],5,1e-8,7)
case(2,2,[(2,0,1.0)],[1.0,1.0],[0.0,0.0],5,1e-8)
case(2,2,[(0,2,1.0)],[1.0,1.0],[0.0,0.0],5,1e-8)
case(2,2,[(2,2,1.0)],[1.0,1.0],[0.0,0.0],5,1e-8)
case(3,2,spd,[1.0,1.0],[0.0,0.0],5,1e-8)
case(2,3,spd,[1.0,1.0,1.0],[0.0,0.0],5,1e-8)
case(0,2,[],[],[0.0,0.0],5,1e-8)
case(2,0,[],[1.0,1.0],[],5,1e-8)
# antisymmetric: breakdowns
case(2,2,[(0,1,1.0),(1,0,-1.0)],[1.0,0.0],[0.0,0.0],10,1e-10)
case(2,2,[(0,1,1.0),(1,0,1.0)],[1.0,0.0],[0.0,0.0],10,1e-10)
case(3,3,[(0,1,1.0),(1,2,1.0),(2,0,1.0)],[1.0,0.0,0.0],[0.0,0.0,0.0],10,1e-10)
case(3,3,[(0,1,1.0),(1,2,1.0),(2,0,1.0)],[1.0,2.0,3.0],[0.5,0.0,0.0],10,1e-10,2)
open('k.cases','w').write('\n'.join(lines)+'\n')
print(len(lines))
