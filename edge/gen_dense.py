import random, struct
random.seed(12345)
def fhex(x):
    if x != x: return "nan"
    return "%016x" % struct.unpack(">Q", struct.pack(">d", x))[0]
SPECIAL = [0.0, -0.0, 1.0, -1.0, float("inf"), float("-inf"), float("nan"), 2.5, -3.0, 1e308, -1e308, 5e-324, 0.5]
def fq(): 
    r = random.random()
    if r < 0.3: return "0"
    n = random.randint(-4,4) or 1
    d = random.choice([1,1,2,3])
    from math import gcd
    g = gcd(abs(n), d); n//=g; d//=g
    return str(n) if d==1 else "%d/%d"%(n,d)
def ff(): return fhex(random.choice(SPECIAL))
def sc(tag): 
    if tag=="q": return fq()
    if tag=="f": return ff()
    return ff()+" "+ff()
def vec(tag,n): return " ".join([str(n)]+[sc(tag) for _ in range(n)])
def mat(tag,r,c): return " ".join([str(r),str(c)]+[sc(tag) for _ in range(r*c)])
lines=[]
# band: degenerate shapes
for tag in ["q","f","c"]:
  for n in range(0,4):
    for m1 in range(0,5):
      for m2 in range(0,5):
        for rep in range(2):
          mm=m1+m2+1
          rl = n if rep==0 else random.choice([n,n+1,max(n-1,0)])
          vl = n if rep==0 else random.choice([n,n+1,max(n-1,0)])
          pad, pad2 = sc(tag), sc(tag)
          def pm(p):
              return " ".join([str(n),str(mm)]+[(p if i+c<m1 else sc(tag)) for i in range(n) for c in range(mm)])
          lines.append("band %s %d %d %d %s %s %s %s %s %s %s %d %d %d %s" % (tag,n,m1,m2,pad,pm(pad),pad2,pm(pad2),vec(tag,rl),vec(tag,vl),sc(tag),random.randint(0,n+1),random.randint(0,n+1),random.randint(-m1-1,m2+1),sc(tag)))
# tri: degenerate
for tag in ["q","f","c"]:
  for n in range(0,4):
    for rep in range(6):
      a = max(n-1,0) if rep<4 else random.randint(0,3)
      b = max(n-1,0) if rep<4 else random.randint(0,3)
      lines.append("tri %s %s %s %s %s %s %s %d %d" % (tag, vec(tag,a), vec(tag,n), vec(tag,b), vec(tag,random.choice([n,n,n+1])), vec(tag,random.choice([n,n,n+1])), sc(tag), random.randint(0,n+1), random.randint(0,n+1)))
# solve / detinv with special floats and n = 0
for tag in ["q","f","c"]:
  for n in range(0,4):
    for rep in range(8):
      lines.append("solve %s %s %s" % (tag, mat(tag,n,n), vec(tag,n)))
      lines.append("detinv %s %s" % (tag, mat(tag,n,n)))
  lines.append("solve %s %s %s" % (tag, mat(tag,2,3), vec(tag,2)))
  lines.append("solve %s %s %s" % (tag, mat(tag,2,2), vec(tag,3)))
  lines.append("detinv %s %s" % (tag, mat(tag,2,3)))
  lines.append("detinv %s %s" % (tag, mat(tag,0,3)))
# mat norms specials
for r in range(0,4):
  for c in range(0,4):
    for rep in range(4):
      lines.append("mat_norms %s %s" % (mat("f",r,c), fhex(random.choice([0.0,1.0,2.0,-1.0,float("inf"),float("nan"),0.5,3.0]))))
# vec norms / spaces specials
for n in range(0,5):
  for rep in range(6):
    lines.append("vec_norms %s %s %s %s" % (vec("f",n), vec("f",n), ff(), fhex(random.choice([0.0,1.0,2.0,-1.0,float("inf"),float("nan"),0.5,3.0]))))
for rep in range(60):
    lines.append("vec_spaces %s %s %d %s" % (ff(), ff(), random.randint(0,5), fhex(random.choice([0.0,1.0,2.0,-1.0,float("inf"),float("nan"),0.5,3.0]))))
# vec hist with specials on f and c
ops_f = ["sum","product","abs","norm1","norm2","norminf","neg","pop"]
for tag in ["f","c"]:
  for rep in range(60):
    n = random.randint(0,4)
    ops=[]
    for k in range(6):
      o = random.choice(["sum","product","abs","norm1","norminf","neg","find","smul","sdiv","adds","subs","muls","divs","dot","sumslice","prodslice","add","sub"] + (["norm2","normp","lsmul"] if tag=="f" else ["conj","real"]))
      if o in ("find","smul","sdiv","adds","subs","muls","divs"): ops.append(o+" "+sc(tag))
      elif o in ("dot","add","sub"): ops.append(o+" "+vec(tag,n))
      elif o in ("sumslice","prodslice"): ops.append("%s %d %d"%(o,random.randint(0,n),random.randint(0,n)))
      elif o=="normp": ops.append("normp "+fhex(random.choice([0.0,1.0,2.0,-1.0,float("inf"),0.5])))
      elif o=="lsmul": ops.append("lsmul "+ff())
      else: ops.append(o)
    lines.append("vec_hist %s %s %d %s" % (tag, vec(tag,n), len(ops), " ".join(ops)))
# mat hist with specials
for tag in ["f","c"]:
  for rep in range(60):
    r,c = random.randint(0,3), random.randint(0,3)
    ops=[]
    for k in range(4):
      o = random.choice(["neg","smul","sdiv","adds","subs","mulv","tr","fillband","add","mul"])
      if o in ("smul","sdiv","adds","subs"): ops.append(o+" "+sc(tag))
      elif o=="mulv": ops.append("mulv "+vec(tag,c))
      elif o=="tr": ops.append("tr"); r,c=c,r
      elif o=="fillband": ops.append("fillband %d %s"%(random.randint(-5,5),sc(tag)))
      elif o=="add": ops.append("add "+mat(tag,r,c))
      elif o=="mul": 
        c2=random.randint(0,3); ops.append("mul "+mat(tag,c,c2)); c=c2
      else: ops.append(o)
    lines.append("mat_hist %s %s %d %s" % (tag, mat(tag,r,c), len(ops), " ".join(ops)))
# dot threaded with specials: need wobs; skip
with open("cases.txt","w") as f:
  for i,l in enumerate(lines): f.write("X.%d %s\n"%(i,l))
print(len(lines))
