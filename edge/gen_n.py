import struct, itertools, random, math
def h(x):
    if x != x: return 'nan'
    return '%016x' % struct.unpack('>Q', struct.pack('>d', x))[0]
def vec(v): return ' '.join([str(len(v))]+[h(x) for x in v])
def cvec(v): return ' '.join([str(len(v))]+[h(a)+' '+h(b) for a,b in v])
nan=float('nan'); inf=float('inf')
lines=[]
random.seed(4)
def k(x): return 'k '+h(x)
def kc(x,y=0.0): return 'k '+h(x)+' '+h(y)
fexprs=['v 0','- * v 0 v 0 '+k(2.0),'abs v 0','exp v 0','sin v 0','/ '+k(1.0)+' v 0',k(0.0),k(1.0),'- cos v 0 v 0','+ * v 0 * v 0 v 0 '+k(1.0), 'neg * v 0 v 0', k(nan)]
cexprs=['v 0','- * v 0 v 0 '+kc(2.0),'abs v 0','exp v 0','sin v 0','/ '+kc(1.0)+' v 0',kc(0.0),'+ * v 0 v 0 '+kc(1.0), '+ * v 0 v 0 '+kc(0.0,1.0),'cos v 0']
gs=[0.0,-0.0,1.0,-1.5,nan,inf,1e300,1e-300,5e-324,3.0]
tols=[1e-8,0.0,-1.0,nan,inf,1e-300]
deltas=[1e-8,0.0,-1e-8,nan,inf,1e-320,1.0,1e300]
for e in fexprs:
  for g in gs:
    for tol in tols:
      for d in deltas:
        mi=random.choice([0,1,2,5,20])
        lines.append('N.%d newton_s f %s %s %s %d x 0 %s'%(len(lines),h(g),h(tol),h(d),mi,e))
for e in cexprs:
  for g in itertools.product(gs[:7],repeat=2):
    for tol in tols[:4]:
      d=random.choice(deltas); mi=random.choice([0,1,2,5,20])
      lines.append('N.%d newton_s c %s %s %s %s %d x 0 %s'%(len(lines),h(g[0]),h(g[1]),h(tol),h(d),mi,e))
# systems
def fsys(n, m, ext=None):
    comps=[]
    for i in range(m):
        t=random.choice(['lin','quad','sin','const','abs','div'])
        j=random.randrange(max(n,1)); j2=random.randrange(max(n,1))
        if n==0: comps.append(k(random.choice([0.0,1.0]))); continue
        if t=='lin': comps.append('- * %s v %d %s'%(k(random.choice([2.0,-3.0,0.0,1.0])),j,k(random.choice([1.0,0.0,-2.0]))))
        elif t=='quad': comps.append('- * v %d v %d %s'%(j,j2,k(random.choice([1.0,2.0,0.0]))))
        elif t=='sin': comps.append('+ sin v %d * %s v %d'%(j,k(2.0),j2))
        elif t=='const': comps.append(k(random.choice([0.0,1.0,nan])))
        elif t=='abs': comps.append('abs v %d'%j)
        else: comps.append('/ %s v %d'%(k(1.0),j))
    s='%d %s'%(m,' '.join(comps)) if m>0 else '0'
    s+= (' ext '+h(ext)) if ext is not None else ' noext'
    return s
for n in [0,1,2,3]:
  for m in [0,1,2,3,4]:
    for rep in range(25):
      g=[random.choice([0.0,1.0,-1.5,0.5,2.0,nan,1e300,-0.0]) for _ in range(n)]
      tol=random.choice(tols); d=random.choice(deltas); mi=random.choice([0,1,2,5])
      ext=random.choice([None,None,0.0,0.75,-5.0,1.0+1e-9])
      f=fsys(n,m,ext)
      lines.append('N.%d newton_v f %s %s %s %d x 0 %s fd'%(len(lines),vec(g),h(tol),h(d),mi,f))
      lines.append('N.%d jacobian f %s %s x %s'%(len(lines),vec(g),h(d),f))
      # exact jacobian with k entries
      kk=random.choice([0,n*m,n*n,n*n+1,max(n*n-1,0),m*n+n])
      js=' '.join(random.choice([k(1.0),k(0.0),'v %d'%random.randrange(max(n,1)) if n>0 else k(2.0),k(2.0)]) for _ in range(kk))
      lines.append('N.%d newton_v f %s %s %s %d x 0 %s exact %d %s'%(len(lines),vec(g),h(tol),h(d),mi,f,kk,js))
# complex systems
def csys(n,m,ext=None):
    comps=[]
    for i in range(m):
        if n==0: comps.append(kc(1.0)); continue
        j=random.randrange(n); j2=random.randrange(n)
        comps.append(random.choice(['- * %s v %d %s'%(kc(2.0,1.0),j,kc(1.0)),'- * v %d v %d %s'%(j,j2,kc(0.0,1.0)),'abs v %d'%j,'exp v %d'%j,kc(0.0)]))
    s='%d %s'%(m,' '.join(comps)) if m>0 else '0'
    s+= (' ext '+h(ext)) if ext is not None else ' noext'
    return s
for n in [0,1,2,3]:
  for m in [0,1,2,3]:
    for rep in range(15):
      g=[(random.choice([0.0,1.0,-1.5,0.5,nan,-0.0]),random.choice([0.0,1.0,-0.0,0.25])) for _ in range(n)]
      tol=random.choice(tols); d=random.choice(deltas); mi=random.choice([0,1,2,5])
      ext=random.choice([None,None,0.0,0.75])
      f=csys(n,m,ext)
      lines.append('N.%d newton_v c %s %s %s %d x 0 %s fd'%(len(lines),cvec(g),h(tol),h(d),mi,f))
      lines.append('N.%d jacobian c %s %s x %s'%(len(lines),cvec(g),h(d),f))
open('n.cases','w').write('\n'.join(lines)+'\n')
print(len(lines))
