import struct, itertools, random, math
def h(x):
    if x != x: return 'nan'
    return '%016x' % struct.unpack('>Q', struct.pack('>d', x))[0]
nan=float('nan'); inf=float('inf')
sp=[0.0,-0.0,1.0,-1.0,nan,inf,-inf,5e-324,-5e-324,2.2250738585072014e-308,1.7976931348623157e308,-1.7976931348623157e308,1e154,1e-154,1.3407807929942597e154,math.pi,-math.pi,math.pi/2,0.5,2.0,710.0,-745.2,1e22,1e300,3.0,1e-17,0.1]
lines=[]
random.seed(3)
for a in itertools.product(sp[:12],repeat=2):
    for b in itertools.product(sp[:12],repeat=2):
        r=random.choice(sp)
        lines.append('X.%d cx_all f %s %s %s %s %s'%(len(lines),h(a[0]),h(a[1]),h(b[0]),h(b[1]),h(r)))
        c=(random.choice(sp[:8]),random.choice(sp[:8]))
        lines.append('X.%d cx_ord f %s %s %s %s %s %s'%(len(lines),h(a[0]),h(a[1]),h(b[0]),h(b[1]),h(c[0]),h(c[1])))
for z in itertools.product(sp,repeat=2):
    for _ in range(6):
        w=(random.choice(sp),random.choice(sp))
        lines.append('X.%d cxfun special %s %s %s %s'%(len(lines),h(z[0]),h(z[1]),h(w[0]),h(w[1])))
for _ in range(5000):
    z=(random.choice(sp+[random.uniform(-800,800),random.lognormvariate(0,40)]),random.choice(sp+[random.uniform(-800,800),-random.lognormvariate(0,40)]))
    w=(random.choice(sp+[1/3.0,random.uniform(-5,5)]),random.choice(sp+[0.0,0.0,random.uniform(-5,5)]))
    lines.append('X.%d cxfun special %s %s %s %s'%(len(lines),h(z[0]),h(z[1]),h(w[0]),h(w[1])))
qs=['0','1','-1','1/2','-2/3','7','-5/4']
for a in itertools.product(qs,repeat=2):
    for b in itertools.product(qs,repeat=2):
        lines.append('X.%d cx_all q %s %s %s %s %s'%(len(lines),a[0],a[1],b[0],b[1],random.choice(qs)))
open('c.cases','w').write('\n'.join(lines)+'\n')
print(len(lines))
