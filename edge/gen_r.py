import struct, itertools, random
def h(x):
    if x != x: return 'nan'
    return '%016x' % struct.unpack('>Q', struct.pack('>d', x))[0]
def vec(v): return ' '.join([str(len(v))]+[h(x) for x in v])
def cvec(v): return ' '.join([str(len(v))]+[h(a)+' '+h(b) for a,b in v])
nan=float('nan'); inf=float('inf')
lines=[]
random.seed(2)
vals=[0.0,-0.0,1.0,-1.0,2.0,-3.0,0.5,nan,inf,-inf,1e308,1e-308,5e-324,1e200,1e-200,27.0,-8.0]
def add(c):
    for rf in [0,1]:
        lines.append('R.%d roots f x %d %s 0'%(len(lines),rf,vec(c)))
def addc(c):
    for rf in [0,1]:
        lines.append('R.%d roots c x %d %s 0'%(len(lines),rf,cvec(c)))
add([]); add([1.0]); add([0.0]); addc([]); addc([(1.0,1.0)])
for deg in [1,2,3]:
    for c in itertools.product([0.0,-0.0,1.0,-2.0,nan,inf,1e200,5e-324], repeat=deg+1):
        if random.random() < (1.0 if deg<3 else 0.25): add(list(c))
    for _ in range(300):
        addc([(random.choice(vals),random.choice(vals)) for _ in range(deg+1)])
for deg in [4,5,6,9]:
    for _ in range(200):
        add([random.choice(vals[:7]+[0.0,0.0,1e200,1e-200,5e-324]) for _ in range(deg+1)])
        addc([(random.choice(vals[:7]+[0.0,0.0]),random.choice(vals[:7]+[0.0,0.0,0.0])) for _ in range(deg+1)])
    for _ in range(30):
        add([random.choice(vals) for _ in range(deg+1)])
# special: x^n, x^n - 1, (x-1)^n , leading zeros
import math
for n in range(1,12):
    add([0.0]*n+[1.0]); add([-1.0]+[0.0]*(n-1)+[1.0]); add([float(math.comb(n,k))*(-1)**(n-k) for k in range(n+1)]); add([1.0]*n+[0.0]); add([0.0]*(n+1))
    addc([(0.0,1.0)]+[(0.0,0.0)]*(n-1)+[(1.0,0.0)]); addc([(0.0,-1.0)]+[(0.0,0.0)]*(n-1)+[(1.0,0.0)])
open('r.cases','w').write('\n'.join(lines)+'\n')
print(len(lines))
