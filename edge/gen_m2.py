import struct, random
def h(x):
    if x != x: return 'nan'
    return '%016x' % struct.unpack('>Q', struct.pack('>d', x))[0]
def vec(v): return ' '.join([str(len(v))]+[h(x) for x in v])
nan=float('nan'); inf=float('inf')
random.seed(6)
sp=[0.0,-0.0,1.0,-1.0,nan,inf,-inf,5e-324,1e-310,1.7976931348623157e308,0.5,1.5,2.5,0.125,0.375,0.005,0.015,0.045,0.9999,0.99995,9.995,99999.5,1e16,1e22,1/3.0,-1e-5,-0.004,4.35,0.285,1.005]
def k(x): return 'k '+h(x)
exprs=['v 0','v 1','* v 0 v 1','+ * '+k(0.5)+' v 0 '+k(0.125),'sin * v 0 v 1','/ v 0 v 1','abs - v 0 v 1',k(nan),k(-0.0),'exp * '+k(700.0)+' v 0','neg v 1','+ v 0 '+k(0.005)]
lines=[]
for rep in range(3000):
    nx=random.randrange(0,5); ny=random.randrange(0,5); nv=random.randrange(0,4)
    mode=random.random()
    def nodes(n):
        if mode<0.5: return sorted(random.uniform(-3,3) for _ in range(n))
        if mode<0.75: return [random.choice(sp) for _ in range(n)]
        return [random.choice([0.0,0.5,1.0,1.5,2.5,0.125]) for _ in range(n)]
    s='mesh2_num %s %s %d general %s'%(vec(nodes(nx)),vec(nodes(ny)),nv,' '.join(random.choice(exprs) for _ in range(nv)))
    lines.append('G.%d %s'%(len(lines),s.strip()))
open('m2.cases','w').write('\n'.join(lines)+'\n'); print(len(lines))
