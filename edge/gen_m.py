import struct, itertools, random, math
def h(x):
    if x != x: return 'nan'
    return '%016x' % struct.unpack('>Q', struct.pack('>d', x))[0]
def vec(v): return ' '.join([str(len(v))]+[h(x) for x in v])
def qvec(v): return ' '.join([str(len(v))]+[str(x) for x in v])
nan=float('nan'); inf=float('inf')
lines=[]
random.seed(5)
sp=[0.0,-0.0,1.0,-1.0,nan,inf,-inf,5e-324,-5e-324,1e-310,2.2250738585072014e-308,1.7976931348623157e308,-1.7976931348623157e308,0.5,1.5,2.5,-0.5,0.125,0.375,-0.125,0.005,0.015,0.025,0.045,1e-7,9.999999e-8,0.9999,0.99995,9.995,99999.5,1e15+0.5,1e16,1e22,123456789.123456789,1/3.0,2/3.0,-1e-5,-0.004,0.0049999999,4.35,0.285,1.005,1.0000000000000002, 8.5,0.3,2**-20,2**53+2.0]
# mesh1_num
def m1(nodes,nvars,data,xs,prec,kind='general'):
    lines.append('M.%d mesh1_num %s %d %s %s %d %s'%(len(lines),vec(nodes),nvars,vec(data),vec(xs),prec,kind))
for nn in [0,1,2,3,5]:
  for nvars in [0,1,2,3]:
    for rep in range(40):
      kindn=random.choice(['inc','rand','rep','sp','close'])
      if kindn=='inc': nodes=sorted(random.uniform(-3,3) for _ in range(nn))
      elif kindn=='rand': nodes=[random.choice([0.0,1.0,-1.0,0.5,2.0,3.0]) for _ in range(nn)]
      elif kindn=='rep': nodes=[1.0]*nn
      elif kindn=='close': nodes=[1.0+i*random.choice([5e-8,1e-7,1.5e-7,9.9e-8]) for i in range(nn)]
      else: nodes=[random.choice(sp) for _ in range(nn)]
      data=[random.choice(sp) for _ in range(nn*nvars)]
      xs=[random.choice(sp) for _ in range(3)]+[random.choice(nodes) if nodes else 0.0 for _ in range(2)]+[ (nodes[0]+nodes[-1])/2 if nodes else 1.0]+[(random.choice(nodes)+random.choice([1e-7,-1e-7,9.9e-8,1.01e-7,5e-8])) if nodes else 2.0 for _ in range(3)]
      prec=random.choice([0,1,2,3,4,8,12,17,20,30,60,330,400,1100])
      m1(nodes,nvars,data,xs,prec)
# formatting focus: one node, one var each special value, many precisions
for v in sp:
  for prec in [0,1,2,3,5,7,10,15,16,17,18,25,50,324,340,767,1074,1080]:
    m1([v,-v],1,[v,v*0.5],[0.0],prec)
for _ in range(3000):
    e=random.choice([random.uniform(-320,305),random.uniform(-20,20),random.uniform(-5,5)])
    v=random.choice([-1,1])*float("1e%d"%int(e))*random.uniform(1,10)
    v2=round(random.uniform(0,10),random.randrange(0,6))+random.choice([0,5*10**-random.randrange(1,8)])
    prec=random.choice([0,1,2,3,4,5,6,7,8,12,16,17,20,40,330])
    m1([v,v2],2,[v2,v,-v2,-v],[v2],prec)
open('m1.cases','w').write('\n'.join(lines)+'\n'); print(len(lines))
lines2=[]
# mesh hist
qs=['0','1','-1','1/2','-2/3','7']
for rep in range(1500):
    nn=random.randrange(0,4); nvars=random.randrange(0,4); nops=random.randrange(1,12)
    nodes=[str(i) for i in range(nn)]
    s='mesh1_hist %s %d %d'%(qvec(nodes),nvars,nops)
    for _ in range(nops):
        node=random.randrange(0,nn+2); 
        o=random.randrange(6)
        if o<2: l=random.choice([nvars,nvars,nvars+1,max(nvars-1,0),0]); s+=' set %d %s'%(node,qvec([random.choice(qs) for _ in range(l)]))
        elif o==2: s+=' get %d'%node
        elif o==3: s+=' index %d'%node
        elif o==4: s+=' setvar %d %d %s'%(node,random.randrange(0,nvars+2),random.choice(qs))
        else: s+=' coord %d'%node
    lines2.append('H.%d %s'%(len(lines2),s))
for rep in range(3000):
    nx=random.randrange(0,4); ny=random.randrange(0,4); nvars=random.randrange(0,3); nops=random.randrange(1,12)
    s='mesh2_hist %s %s %d %d'%(vec([float(i) for i in range(nx)]),vec([float(i)/2 for i in range(ny)]),nvars,nops)
    for _ in range(nops):
        i=random.randrange(0,nx+2); j=random.randrange(0,ny+2+ (ny if random.random()<0.3 else 0))
        o=random.randrange(10)
        if o<2: l=random.choice([nvars,nvars,nvars+1,max(nvars-1,0)]); s+=' set %d %d %s'%(i,j,qvec([random.choice(qs) for _ in range(l)]))
        elif o==2: s+=' get %d %d'%(i,j)
        elif o==3: s+=' index %d %d'%(i,j)
        elif o==4: s+=' setvar %d %d %d %s'%(i,j,random.randrange(0,nvars+2),random.choice(qs))
        elif o==5: s+=' xsec %d'%i
        elif o==6: s+=' ysec %d'%j
        elif o==7: s+=' varmat %d'%random.randrange(0,nvars+2)
        elif o==8: s+=' assign %s'%random.choice(qs)
        else: s+=' coord %d %d'%(i,j)
    lines2.append('H.%d %s'%(len(lines2),s))
open('h.cases','w').write('\n'.join(lines2)+'\n'); print(len(lines2))
