#!/usr/bin/env python3
"""Edge-case stream of the thorough tier (correspondence only: implementation vs Lean model).

The generators gen_*.py were written by the two model-vs-source reviews (DESIGN.md §15): hand-built
degenerate inputs — orders 0 and 1, NaN / ±inf / −0.0 / subnormal / huge values, tolerances 0 / negative /
NaN / inf, budgets 0, malformed sizes, ragged user functions, print precisions up to 1100 — that lie
OUTSIDE the domain the property oracles are written for (so oracle verdicts on them are ignored), but on
which the model must still behave as the code does.  Each generator is deterministic (fixed seed).

usage: make.py <property> <out-file>      writes the request lines of that property, ids E.<n>
"""
import os, subprocess, sys, tempfile, shutil
HERE = os.path.dirname(os.path.abspath(__file__))
OP2PROP = {"band": "C04", "tri": "C05", "solve": "C01", "detinv": "C02", "mat_hist": "C03", "mat_norms": "C03",
           "vec_hist": "C15", "vec_norms": "C15", "vec_spaces": "C15", "krylov": "C08", "poly_ops": "C11",
           "polydiv": "C12", "roots": "C10", "cx_all": "C13", "cx_ord": "C13", "cxfun": "C14",
           "newton_s": "C17", "newton_v": "C17", "jacobian": "C18", "mesh1_hist": "C19", "mesh1_num": "C19",
           "mesh2_hist": "C19", "mesh2_num": "C19"}
GENS = {"C01": ["gen_dense"], "C02": ["gen_dense"], "C03": ["gen_dense"], "C04": ["gen_dense"], "C05": ["gen_dense"],
        "C15": ["gen_dense"], "C08": ["gen_k"], "C09": ["gen_k"], "C10": ["gen_r"], "C11": ["gen_p"], "C12": ["gen_p"],
        "C13": ["gen_c"], "C14": ["gen_c"], "C17": ["gen_n"], "C18": ["gen_n"], "C19": ["gen_m", "gen_m2"]}


def main():
    prop, out = sys.argv[1], sys.argv[2]
    want = {o for o, p in OP2PROP.items() if p == prop}
    if prop == "C09": want = {"krylov"}
    lines = []
    tmp = tempfile.mkdtemp(prefix="edge.", dir=os.path.dirname(os.path.abspath(out)))
    try:
        for g in GENS.get(prop, []):
            r = subprocess.run([sys.executable, os.path.join(HERE, g + ".py")], cwd=tmp, stdout=subprocess.DEVNULL)
            if r.returncode != 0:
                print("edge generator failed:", g); return 2
        for fn in sorted(os.listdir(tmp)):
            for l in open(os.path.join(tmp, fn)):
                t = l.split(None, 2)
                if len(t) == 3 and t[1] in want:
                    lines.append(t[1] + " " + t[2].rstrip("\n"))
    finally:
        shutil.rmtree(tmp, ignore_errors=True)
    seen = set(); n = 0
    with open(out, "w") as f:
        for l in lines:
            if l in seen: continue
            seen.add(l); f.write(f"E.{n} {l}\n"); n += 1
    print(n)
    return 0


if __name__ == "__main__":
    sys.exit(main())
