import struct, itertools, random
def h(x):
    if x != x: return 'nan'
    return '%016x' % struct.unpack('>Q', struct.pack('>d', x))[0]
def vec(v): return ' '.join([str(len(v))]+[h(x) for x in v])
def cvec(v): return ' '.join([str(len(v))]+[h(a)+' '+h(b) for a,b in v])
def qvec(v): return ' '.join([str(len(v))]+[str(x) for x in v])
nan=float('nan'); inf=float('inf')
lines=[]
pool=[0.0,-0.0,1.0,-2.0,nan,inf,-inf,0.5,3.0,1e308,5e-324,1e-200]
polys=[[],[0.0],[-0.0],[1.0],[nan],[inf],[0.0,0.0],[1.0,0.0],[0.0,1.0],[1.0,-0.0],[1.0,2.0],[-0.0,0.0,3.0],[1.0,2.0,0.0,0.0],[nan,1.0],[1.0,nan],[inf,1.0],[1.0,inf],[1e308,1e308],[5e-324,1.0],[2.0,-3.0,1.0],[0.0,0.0,0.0],[1.0,2.0,3.0,4.0,5.0],[-1.0,0.0,0.0,1.0],[1e-200,1e200]]
random.seed(1)
for u in polys:
    for v in polys:
        lines.append('P.%d polydiv f %s %s'%(len(lines),vec(u),vec(v)))
        lines.append('P.%d polydiv c %s %s'%(len(lines),cvec([(a,0.0) for a in u]),cvec([(0.0,b) for b in v])))
        lines.append('P.%d polydiv c %s %s'%(len(lines),cvec([(a,-a) for a in u]),cvec([(b,1.0) for b in v])))
        for n in [0,1,2,5]:
            x=random.choice(pool); s=random.choice(pool)
            lines.append('P.%d poly_ops f %s %s %s %s %d'%(len(lines),vec(u),vec(v),h(x),h(s),n))
            lines.append('P.%d poly_ops c %s %s %s %s %s %s %d'%(len(lines),cvec([(a,1.0) for a in u]),cvec([(0.0,b) for b in v]),h(x),h(s),h(s),h(x),n))
qpolys=[[],[0],[1],['1/2'],[0,0],[1,0],[0,1],[1,2],[0,0,3],[1,2,0,0],[2,-3,1],['-1/3',0,0,'5/4'],[0,0,0],[1,2,3,4,5]]
for u in qpolys:
    for v in qpolys:
        lines.append('P.%d polydiv q %s %s'%(len(lines),qvec(u),qvec(v)))
        for n in [0,1,3]:
            lines.append('P.%d poly_ops q %s %s %s %s %d'%(len(lines),qvec(u),qvec(v),random.choice(['0','1','-2/3','5']),random.choice(['0','1','-2/3']),n))
# long polynomial: iteration limit of polydiv
lines.append('P.%d polydiv f %s %s'%(len(lines),vec([1.0]*1005),vec([1.0])))
lines.append('P.%d polydiv f %s %s'%(len(lines),vec([1.0]*1002),vec([2.0])))
lines.append('P.%d polydiv f %s %s'%(len(lines),vec([1.0]*1001),vec([2.0])))
lines.append('P.%d polydiv f %s %s'%(len(lines),vec([1.0]*1000),vec([2.0])))
lines.append('P.%d polydiv q %s %s'%(len(lines),qvec([1]*1003),qvec([1])))
lines.append('P.%d polydiv f %s %s'%(len(lines),vec([1.0]*1200),vec([1.0,1.0])))
open('p.cases','w').write('\n'.join(lines)+'\n')
print(len(lines))
