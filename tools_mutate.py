#!/usr/bin/env python3
"""Systematic mutation run against the checks (not a registered check; the registered checks always run
against /repo itself).  For every mutant (one small syntactic change in /repo/src/**.rs) a scratch copy of the
crate and of the harness is built OUTSIDE /repo and /verif, the crate's own test suite is run on it, and the
correspondence + oracle legs of the quick checks of the properties anchored in that file are evaluated with the
mutated harness binary.  The proof leg is skipped (a mutant does not touch the Lean side).

  tools_mutate.py run [--max N] [--workers W] [--files glob] [--scratch DIR]   -> mutation/results.jsonl, mutation/SUMMARY.md
  tools_mutate.py eval <harness-bin> <workdir> <prop> [<prop> …]               (internal)

Nothing is kept under the scratch directory afterwards.
"""
import sys, os, re, json, subprocess, shutil, random, time, argparse, glob, concurrent.futures, threading

ROOT = os.path.dirname(os.path.abspath(__file__))
REPO = "/repo"
OUT = os.path.join(ROOT, "mutation")

OPS = [  # (name, regex, replacement)
    ("add->sub", r" \+ ", " - "), ("sub->add", r" - ", " + "), ("mul->div", r" \* ", " / "), ("div->mul", r" / ", " * "),
    ("lt->le", r" < ", " <= "), ("le->lt", r" <= ", " < "), ("gt->ge", r" > ", " >= "), ("ge->gt", r" >= ", " > "),
    ("eq->ne", r" == ", " != "), ("ne->eq", r" != ", " == "),
    ("addassign->subassign", r" \+= ", " -= "), ("subassign->addassign", r" -= ", " += "),
    ("mulassign->divassign", r" \*= ", " /= "), ("divassign->mulassign", r" /= ", " *= "),
    ("and->or", r" && ", " || "), ("or->and", r" \|\| ", " && "),
    ("range0->1", r"\b0\.\.", "1.."), ("rangeincl->excl", r"\.\.=", ".."),
    ("drop-abs", r"\.abs\(\)", ""), ("drop-conj", r"\.conj\(\)", ""),
    ("minus1->minus2", r" - 1\b", " - 2"), ("plus1->plus0", r" \+ 1\b", " + 0"),
    ("half->quarter", r"\b0\.5\b", "0.25"), ("two->three", r"\b2\.0\b", "3.0"),
    ("zero->one", r"T::zero\(\)", "T::one()"), ("neg-drop", r"= -", "= "),
    # second batch
    ("rows->cols", r"self\.rows\b(?!\()", "self.cols"), ("cols->rows", r"self\.cols\b(?!\()", "self.rows"),
    ("swap-ij", r"\(\s*i\s*,\s*j\s*\)", "( j, i )"), ("swap-ji", r"\(\s*j\s*,\s*i\s*\)", "( i, j )"),
    ("swap-ik", r"\(\s*i\s*,\s*k\s*\)", "( k, i )"), ("swap-kj", r"\(\s*k\s*,\s*j\s*\)", "( j, k )"),
    ("del-stmt", r"^(\s*)(?!let\b|return\b|if\b|for\b|while\b|else\b|match\b|\}|\{|pub\b|fn\b)([A-Za-z_\*][^;{}]*\s(=|\+=|-=|\*=|/=)\s[^;{}]*;)\s*$", r"\1/* deleted */"),
    ("del-call", r"^(\s*)(?!let\b|return\b)((self|[a-z_]+)\.[a-z_]+\([^;{}]*\);)\s*$", r"\1/* deleted */"),
    ("idx-plus", r"\[\s*([ijk])\s*\]", r"[ \1 + 1 ]"),
]
OPS += [
    # third batch: numeric literals
    ("float-x2", r"(?<![\w.])(\d+\.\d*(?:[eE][-+]?\d+)?)(?![\w.])", lambda m: repr(float(m.group(1)) * 2.0 if float(m.group(1)) != 0.0 else 1.0)),
    ("float-half", r"(?<![\w.])(\d+\.\d*(?:[eE][-+]?\d+)?)(?![\w.])", lambda m: repr(float(m.group(1)) * 0.5 if float(m.group(1)) != 0.0 else -1.0)),
    ("int+1", r"(?<![\w.])(\d+)(?![\w.]|\s*\.\.)", lambda m: str(int(m.group(1)) + 1)),
]
BATCH3 = {"float-x2", "float-half", "int+1"}
BATCH2 = {"rows->cols", "cols->rows", "swap-ij", "swap-ji", "swap-ik", "swap-kj", "del-stmt", "del-call", "idx-plus"}

PROPS_FOR = [
    (r"matrix/solve\.rs$", ["C01", "C02", "C17"]),
    (r"matrix/", ["C03", "C18", "C20", "C01", "C02", "C17", "C19"]),
    (r"banded\.rs$", ["C04", "C20"]),
    (r"tridiagonal\.rs$", ["C05", "C20"]),
    (r"sparse\.rs$", ["C06", "C07", "C08", "C09", "C20"]),
    (r"polynomial/", ["C11", "C12", "C10", "C20"]),
    (r"complex/", ["C13", "C14", "C10", "C12", "C02", "C15"]),
    (r"newton\.rs$", ["C17"]),
    (r"mesh1d\.rs$|mesh2d\.rs$", ["C19", "C20"]),
]
ALL = [f"C{i:02d}" for i in range(1, 21)]
ONLY_OPS = set()


def props_for(rel):
    for pat, ps in PROPS_FOR:
        if re.search(pat, rel): return ps
    # vector/*, traits.rs, constant.rs, lib.rs: used everywhere
    return ["C15", "C16", "C20", "C03", "C08", "C11", "C13", "C14"] + [p for p in ALL if p not in ("C15", "C16", "C20", "C03", "C08", "C11", "C13", "C14")]


def code_lines(path):
    """(index, line) of lines that are code: not comments, not inside #[cfg(test)] modules, not attribute/use lines"""
    out = []
    in_test = False
    in_block = False
    for i, line in enumerate(open(path).read().split("\n")):
        st = line.strip()
        if in_block:
            if "*/" in st: in_block = False
            continue
        if st.startswith("/*") or ("/*" in st and "*/" not in st):
            if "*/" not in st: in_block = True
            continue
        if st.startswith("#[cfg(test)]"): in_test = True
        if in_test: continue
        if not st or st.startswith("//") or st.startswith("#[") or st.startswith("use ") or st.startswith("pub use") or st.startswith("///"): continue
        if "panic!" in st or "assert" in st: continue            # messages / assertions: not behaviour under test
        if re.match(r"(pub\s+)?(impl|trait|where|fn|type|struct|enum)\b", st) or st.startswith("T:") or st.startswith("F:") or re.match(r"pub\s+fn\b", st): continue   # signatures / bounds
        out.append((i, line))
    return out


def enumerate_mutants(files_glob):
    muts = []
    files = sorted(glob.glob(os.path.join(REPO, "src", "**", "*.rs"), recursive=True))
    for f in files:
        rel = os.path.relpath(f, REPO)
        if files_glob and not re.search(files_glob, rel): continue
        for i, line in code_lines(f):
            code = line.split("//")[0]
            for name, pat, rep in OPS:
                if ONLY_OPS and name not in ONLY_OPS: continue
                for m in re.finditer(pat, code):
                    new = line[:m.start()] + (rep(m) if callable(rep) else m.expand(rep)) + line[m.end():]
                    if new != line:
                        muts.append({"file": rel, "line": i + 1, "op": name, "col": m.start(), "old": line.strip()[:160], "new": new.strip()[:160], "_new_line": new})
    return muts


def sh(cmd, cwd=None, timeout=None, env=None):
    try:
        return subprocess.run(cmd, cwd=cwd, timeout=timeout, env=env, stdout=subprocess.PIPE, stderr=subprocess.STDOUT, text=True)
    except subprocess.TimeoutExpired as e:
        class R: pass
        r = R(); r.returncode = 124; r.stdout = "TIMEOUT"; return r


ENV = dict(os.environ, CARGO_NET_OFFLINE="true", CARGO_TERM_COLOR="never", CARGO_BUILD_JOBS="2")


def setup_worker(wdir):
    shutil.rmtree(wdir, ignore_errors=True)
    os.makedirs(wdir)
    sh(["rsync", "-a", "--exclude", "target", "--exclude", ".git", REPO + "/", os.path.join(wdir, "repo") + "/"])
    sh(["rsync", "-a", "--exclude", "target", os.path.join(ROOT, "harness") + "/", os.path.join(wdir, "harness") + "/"])
    ct = os.path.join(wdir, "harness", "Cargo.toml")
    s = open(ct).read()
    s2 = re.sub(r'path\s*=\s*"/repo"', f'path = "{os.path.join(wdir, "repo")}"', s)
    assert s != s2, "harness Cargo.toml does not reference /repo by path"
    open(ct, "w").write(s2)


def evaluate(hbin, work, props):
    """correspondence + oracle legs of the quick checks with a given harness binary (no proof leg, nothing
    written under /verif except nothing: work dir is in scratch)"""
    sys.path.insert(0, ROOT)
    import verif
    verif.HBIN = hbin
    verif.WORK = work
    res = {}
    for p in props:
        try:
            st = verif.run_streams(p, "quick", 20260926, os.path.join(work, p))
            dis, fails, skipped = verif.analyse(st)
            unknown, known = verif.known_filter(p, st, fails)
            known_ids = {k for k, _ in known}
            du = [k for k in dis if k not in known_ids]
            res[p] = {"oracle": len(unknown), "disagree": len(du)}
            if unknown: break            # a failing input: done; a bare correspondence break: keep looking for one in the other properties
        except SystemExit:
            res[p] = {"oracle": 0, "disagree": 0, "crash": True}   # harness died (e.g. abort / hang killed): counts as noticed
            break
    print(json.dumps(res))


def run_one(widx, scratch, m, lock, fout):
    wdir = os.path.join(scratch, f"w{widx}")
    repo = os.path.join(wdir, "repo")
    path = os.path.join(repo, m["file"])
    orig = open(os.path.join(REPO, m["file"])).read()
    lines = orig.split("\n")
    lines[m["line"] - 1] = m["_new_line"]
    open(path, "w").write("\n".join(lines))
    rec = {k: v for k, v in m.items() if not k.startswith("_")}
    t0 = time.time()
    try:
        b = sh(["cargo", "build", "--offline"], cwd=os.path.join(wdir, "harness"), timeout=900, env=ENV)
        if b.returncode != 0:
            rec["status"] = "no-compile"; return rec
        t = sh(["cargo", "test", "--offline", "--test", "tests"], cwd=repo, timeout=600, env=ENV)
        mt = re.search(r"test result: (\w+)\. (\d+) passed; (\d+) failed", t.stdout)
        rec["suite"] = "timeout" if t.returncode == 124 else (f"{mt.group(2)} passed, {mt.group(3)} failed" if mt else "did not run")
        rec["suite_pass"] = bool(mt and mt.group(1) == "ok")
        hbin = os.path.join(wdir, "harness", "target", "debug", "ohsl-harness")
        work = os.path.join(wdir, "work")
        shutil.rmtree(work, ignore_errors=True)
        e = sh([sys.executable, os.path.abspath(__file__), "eval", hbin, work] + props_for(m["file"]), timeout=1200, env=ENV)
        try:
            res = json.loads(e.stdout.strip().split("\n")[-1])
        except Exception:
            res = {"?": {"crash": True, "out": e.stdout[-300:]}}
        rec["checks"] = res
        det = [p for p, r in res.items() if r.get("oracle") or r.get("crash")] or [p for p, r in res.items() if r.get("disagree")]
        rec["detected_by"] = det[0] if det else None
        rec["detected_with_input"] = bool(det and (res[det[0]].get("oracle") or res[det[0]].get("crash")))
        rec["status"] = "detected" if det else "SURVIVED"
        return rec
    finally:
        open(path, "w").write(orig)
        rec["secs"] = round(time.time() - t0, 1)
        with lock:
            fout.write(json.dumps(rec) + "\n"); fout.flush()


def summarize():
    recs = [json.loads(l) for l in open(os.path.join(OUT, "results.jsonl"))]
    comp = [r for r in recs if r.get("status") != "no-compile"]
    surv_suite = [r for r in comp if r.get("suite_pass")]
    det = [r for r in comp if r["status"] == "detected"]
    det_s = [r for r in surv_suite if r["status"] == "detected"]
    with open(os.path.join(OUT, "SUMMARY.md"), "w") as f:
        f.write("# Mutation run (tools_mutate.py)\n\n")
        f.write(f"* mutants generated and run: {len(recs)}; compiled: {len(comp)}\n")
        f.write(f"* killed by the crate's own test suite: {len(comp) - len(surv_suite)}; passing the suite (the interesting ones): {len(surv_suite)}\n")
        f.write(f"* noticed by the quick checks: {len(det)} of {len(comp)} compiled, **{len(det_s)} of {len(surv_suite)} suite-passing**"
                f" ({sum(1 for r in det_s if r.get('detected_with_input'))} with a failing input from the oracle leg, the rest as a correspondence break)\n\n")
        f.write("## Suite-passing mutants NOT noticed by any check\n\n| file:line | operator | change |\n|---|---|---|\n")
        for r in surv_suite:
            if r["status"] == "SURVIVED":
                f.write(f"| {r['file']}:{r['line']} | {r['op']} | `{r['old']}` → `{r['new']}` |\n")
        f.write("\n## Per file (suite-passing mutants: noticed / total)\n\n")
        byf = {}
        for r in surv_suite:
            a = byf.setdefault(r["file"], [0, 0]); a[1] += 1; a[0] += r["status"] == "detected"
        for k in sorted(byf): f.write(f"* {k}: {byf[k][0]} / {byf[k][1]}\n")
    print(open(os.path.join(OUT, "SUMMARY.md")).read()[:3000])


def main():
    if len(sys.argv) > 1 and sys.argv[1] == "eval":
        evaluate(sys.argv[2], sys.argv[3], sys.argv[4:]); return
    if len(sys.argv) > 1 and sys.argv[1] == "summary":
        summarize(); return
    ap = argparse.ArgumentParser()
    ap.add_argument("cmd"); ap.add_argument("--max", type=int, default=400); ap.add_argument("--workers", type=int, default=7)
    ap.add_argument("--files", default=""); ap.add_argument("--scratch", default="/tmp/ohsl-mut"); ap.add_argument("--seed", type=int, default=1)
    ap.add_argument("--append", action="store_true")
    ap.add_argument("--redo-weak", action="store_true", help="re-run the mutants that survived or were noticed only as a correspondence break")
    ap.add_argument("--batch3", action="store_true", help="only the third batch of operators (numeric literals)")
    ap.add_argument("--batch2", action="store_true", help="only the second batch of operators (statement deletion, index / dimension swaps)")
    a = ap.parse_args()
    global ONLY_OPS
    if a.batch2: ONLY_OPS = BATCH2
    elif a.batch3: ONLY_OPS = BATCH3
    elif not a.redo_weak: ONLY_OPS = {n for n, _, _ in OPS} - BATCH2 - BATCH3
    muts = enumerate_mutants(a.files)
    random.Random(a.seed).shuffle(muts)
    done = set()
    os.makedirs(OUT, exist_ok=True)
    rp = os.path.join(OUT, "results.jsonl")
    if a.append and os.path.exists(rp):
        for l in open(rp):
            r = json.loads(l); done.add((r["file"], r["line"], r["op"], r["col"]))
    if a.redo_weak:
        recs = [json.loads(l) for l in open(rp)]
        weak = {(r["file"], r["line"], r["op"], r["col"]) for r in recs if (r.get("status") == "detected" and not r.get("detected_with_input")) or r.get("status") == "SURVIVED"}
        with open(rp, "w") as f:
            for r in recs:
                if (r["file"], r["line"], r["op"], r["col"]) not in weak: f.write(json.dumps(r) + "\n")
        muts = [m for m in muts if (m["file"], m["line"], m["op"], m["col"]) in weak]
        a.append = True
    else:
        muts = [m for m in muts if (m["file"], m["line"], m["op"], m["col"]) not in done][: a.max]
    print(f"{len(muts)} mutants to run with {a.workers} workers in {a.scratch}", flush=True)
    for w in range(a.workers): setup_worker(os.path.join(a.scratch, f"w{w}"))
    lock = threading.Lock()
    free = list(range(a.workers))
    with open(rp, "a" if a.append else "w") as fout:
        def job(m):
            with lock: w = free.pop()
            try: return run_one(w, a.scratch, m, lock, fout)
            finally:
                with lock: free.append(w)
        with concurrent.futures.ThreadPoolExecutor(max_workers=a.workers) as ex:
            for k, r in enumerate(ex.map(job, muts)):
                print(f"[{k + 1}/{len(muts)}] {r['file']}:{r['line']} {r['op']:24s} {r.get('status')} {r.get('suite', '')} {r.get('detected_by') or ''} {r.get('secs')}s", flush=True)
    shutil.rmtree(a.scratch, ignore_errors=True)
    summarize()


if __name__ == "__main__":
    main()
