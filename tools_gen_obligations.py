#!/usr/bin/env python3
"""Regenerate obligations.json theorem lists from lean/Ohsl/Props/Cnn*.lean (names + class tags),
keeping the hand-written per-property text (rule / not_proved / assumptions / modules)."""
import re, json, os, glob
ROOT=os.path.dirname(os.path.abspath(__file__))
ob=json.load(open(os.path.join(ROOT,'obligations.json')))
CLS={'Structural':'S','Exact':'E','Field':'E','Examples':'example','F64':'S','Generic':'S','Real':'R','Rounding':'F','Analysis':'R'}
for i in range(1,21):
    pid=f"C{i:02d}"
    enabled=set(open(os.path.join(ROOT,'lean','props_enabled.txt')).read().split())
    files=[f for f in sorted(glob.glob(os.path.join(ROOT,'lean','Ohsl','Props',pid+'*.lean'))) if os.path.basename(f)[:-5] in enabled]
    thms=[]
    for fn in files:
        src=open(fn).read()
        ns=None; sec=[]; inner=[]; default='R' if pid=='C14' else 'S'
        for line in src.split('\n'):
            m=re.match(r'\s*namespace\s+(\S+)',line)
            if m and ns is None: ns=m.group(1)
            elif m: inner.append(m.group(1))     # a namespace opened inside the file's namespace
            if re.match(r'\s*end\s+\S+',line) and inner and line.split()[1]==inner[-1]: inner.pop()
            m=re.match(r'\s*section\s*(\S*)',line)
            if m: sec.append(m.group(1))
            if re.match(r'\s*end\s+\S+',line) and sec and line.split()[1]==sec[-1]: sec.pop()
            m=re.match(r'\s*(?:@\[[^\]]*\]\s*)?(?:noncomputable\s+)?(theorem|def|alias)\s+([A-Za-z_][A-Za-z0-9_\'.!?]*)',line)
            if m and ns and not line.strip().startswith('private'):
                kind,name=m.group(1),m.group(2)
                if kind=='def' and name not in ('cx_ring',): continue
                if re.search(r'_(re|im)$',name) and pid=='C13': continue
                cls=default
                for s_ in reversed(sec):
                    if s_ in CLS: cls=CLS[s_]; break
                if cls=='example': continue
                thms.append({"name":".".join([ns]+inner+[name]),"class":cls,"partial":name.endswith('_partial')})
    e=ob.setdefault(pid,{})
    e['theorems']=thms
    e.setdefault('modules',[])
json.dump(ob,open(os.path.join(ROOT,'obligations.json'),'w'),indent=1)
en=open(os.path.join(ROOT,'lean','props_enabled.txt')).read().split()
open(os.path.join(ROOT,'lean','Ohsl.lean'),'w').write('import Ohsl.Driver\n'+''.join(f'import Ohsl.Props.{p}\n' for p in sorted(en)))
print({k:len(v['theorems']) for k,v in ob.items()})
